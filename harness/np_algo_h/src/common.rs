//! Shared helpers for C01..C05: a recording `NtpClock` that logs `step_clock` / `set_frequency` /
//! `status_update` calls into ghost statics and evaluates the *permission oracle* at the moment of
//! the call (so that "step first, check later" is caught before the daemon exits), the
//! `std::process::exit` stub, and constructors for symbolic configurations.
#![allow(dead_code, static_mut_refs)]
use ntp_proto::verif::algorithm::kalman as kh;
use ntp_proto::verif::time_types as tt;
use ntp_proto::{
    AlgorithmConfig, KalmanClockController, NtpClock, NtpDuration, NtpLeapIndicator, NtpTimestamp, StepThreshold,
    SynchronizationConfig, TimeSnapshot,
};

// ---------------------------------------------------------------- ghost log of clock calls
pub static mut STEP_N: usize = 0;
pub static mut STEP_D: [i64; 2] = [0; 2];
pub static mut FREQ_N: usize = 0;
pub static mut FREQ_X: [f64; 2] = [0.0; 2];
pub static mut STATUS_N: usize = 0;
pub static mut STATUS_L: [u8; 2] = [0xff; 2];
pub static mut DISABLE_N: usize = 0;
pub static mut ERREST_N: usize = 0;
/// set by the `std::process::exit` stub ("the daemon stopped")
pub static mut EXITED: bool = false;

/// what the recording clock reports
pub static mut CLOCK_FREQ: f64 = 0.0;
pub static mut CLOCK_NOW: u64 = 0;

// ---------------------------------------------------------------- ghost copy of the configured limits
// (written by the harness from its own symbolic values, never read back from the code under test)
pub static mut POLICY_ON: bool = false;
pub static mut P_STARTUP: bool = false;
pub static mut P_ACC0: i64 = 0;
pub static mut P_START_FWD: Option<i64> = None;
pub static mut P_START_BWD: Option<i64> = None;
pub static mut P_SINGLE_FWD: Option<i64> = None;
pub static mut P_SINGLE_BWD: Option<i64> = None;
pub static mut P_ACC_LIMIT: Option<i64> = None;
pub static mut FREQ_POLICY_ON: bool = false;
pub static mut P_MAX_FREQ: f64 = 0.0;

/// `-bwd < d < fwd` in exact integer arithmetic (`None` = infinite).
pub fn within(fwd: Option<i64>, bwd: Option<i64>, d: i64) -> bool {
    let d = d as i128;
    let f_ok = match fwd {
        None => true,
        Some(f) => d < f as i128,
    };
    let b_ok = match bwd {
        None => true,
        Some(b) => d > -(b as i128),
    };
    f_ok && b_ok
}

/// saturating `acc + |d|` in exact integer arithmetic
pub fn acc_after(acc: i64, d: i64) -> i64 {
    let s = acc as i128 + (d as i128).abs();
    if s > i64::MAX as i128 { i64::MAX } else { s as i64 }
}

/// C01 oracle, written from the property text: may the daemon step the clock by `d` now?
pub fn step_allowed(d: i64) -> bool {
    unsafe {
        if P_STARTUP {
            within(P_START_FWD, P_START_BWD, d)
        } else {
            within(P_SINGLE_FWD, P_SINGLE_BWD, d)
                && match P_ACC_LIMIT {
                    None => true,
                    Some(l) => acc_after(P_ACC0, d) <= l,
                }
        }
    }
}

/// Error type of the recording clock: uninhabited (the clock never fails).
#[derive(Debug)]
pub enum Never {}
impl std::fmt::Display for Never {
    fn fmt(&self, _f: &mut std::fmt::Formatter<'_>) -> std::fmt::Result {
        Ok(())
    }
}
impl std::error::Error for Never {}

#[derive(Debug, Clone)]
pub struct RecClock;

impl NtpClock for RecClock {
    type Error = Never;
    fn now(&self) -> Result<NtpTimestamp, Never> {
        Ok(tt::ts_from_raw(unsafe { CLOCK_NOW }))
    }
    fn set_frequency(&self, freq: f64) -> Result<NtpTimestamp, Never> {
        unsafe {
            if FREQ_POLICY_ON {
                assert!(freq >= -P_MAX_FREQ && freq <= P_MAX_FREQ, "set_frequency argument within +-maximum_frequency_steer");
            }
            if FREQ_N < 2 {
                FREQ_X[FREQ_N] = freq;
            }
            FREQ_N += 1;
            Ok(tt::ts_from_raw(CLOCK_NOW))
        }
    }
    fn get_frequency(&self) -> Result<f64, Never> {
        Ok(unsafe { CLOCK_FREQ })
    }
    fn step_clock(&self, offset: NtpDuration) -> Result<NtpTimestamp, Never> {
        unsafe {
            let d = tt::dur_raw(offset);
            if POLICY_ON {
                assert!(step_allowed(d), "step_clock called with an amount the configured thresholds allow");
            }
            if STEP_N < 2 {
                STEP_D[STEP_N] = d;
            }
            STEP_N += 1;
            Ok(tt::ts_from_raw(CLOCK_NOW))
        }
    }
    fn disable_ntp_algorithm(&self) -> Result<(), Never> {
        unsafe {
            DISABLE_N += 1;
        }
        Ok(())
    }
    fn error_estimate_update(&self, _est_error: NtpDuration, _max_error: NtpDuration) -> Result<(), Never> {
        unsafe {
            ERREST_N += 1;
        }
        Ok(())
    }
    fn status_update(&self, leap_status: NtpLeapIndicator) -> Result<(), Never> {
        unsafe {
            if STATUS_N < 2 {
                STATUS_L[STATUS_N] = leap_code(leap_status);
            }
            STATUS_N += 1;
        }
        Ok(())
    }
}

pub fn leap_code(l: NtpLeapIndicator) -> u8 {
    match l {
        NtpLeapIndicator::NoWarning => 0,
        NtpLeapIndicator::Leap61 => 1,
        NtpLeapIndicator::Leap59 => 2,
        NtpLeapIndicator::Unknown => 3,
        NtpLeapIndicator::Unsynchronized => 4,
    }
}
pub fn leap_from_code(c: u8) -> NtpLeapIndicator {
    match c {
        0 => NtpLeapIndicator::NoWarning,
        1 => NtpLeapIndicator::Leap61,
        2 => NtpLeapIndicator::Leap59,
        3 => NtpLeapIndicator::Unknown,
        _ => NtpLeapIndicator::Unsynchronized,
    }
}

/// Replacement for `std::process::exit`: "the daemon stopped". Records the fact, checks that the
/// clock was not stepped before stopping, and ends the path. (Inert in a native replay.)
pub fn exit_stub(_code: i32) -> ! {
    unsafe {
        EXITED = true;
        #[cfg(kani)]
        {
            kani::cover!(true, "the daemon stops (exit reached)");
            assert!(STEP_N == 0, "the daemon stops instead of stepping (no step_clock before exit)");
            kani::assume(false);
        }
    }
    unreachable!()
}

/// Replacement for `std::process::exit` in harnesses where stopping is not an expected outcome
/// (the slew branch): reaching it is reported.
pub fn exit_unexpected(_code: i32) -> ! {
    unsafe {
        EXITED = true;
    }
    panic!("the daemon stops where the property does not expect it to")
}

// ---------------------------------------------------------------- symbolic configuration
#[cfg(kani)]
pub fn any_finite() -> f64 {
    let x: f64 = kani::any();
    kani::assume(x.is_finite());
    x
}
#[cfg(kani)]
pub fn any_pos_finite() -> f64 {
    let x: f64 = kani::any();
    kani::assume(x.is_finite() && x > 0.0);
    x
}
/// `None` (infinite) or `Some(d)` with `d >= 0` duration units
#[cfg(kani)]
pub fn any_limit() -> Option<i64> {
    let some: bool = kani::any();
    let d: i64 = kani::any();
    kani::assume(d >= 0);
    if some { Some(d) } else { None }
}
pub fn dur_opt(v: Option<i64>) -> Option<NtpDuration> {
    match v {
        None => None,
        Some(d) => Some(tt::dur_from_raw(d)),
    }
}

pub struct StepCfg {
    pub in_startup: bool,
    pub acc0: i64,
    pub start_fwd: Option<i64>,
    pub start_bwd: Option<i64>,
    pub single_fwd: Option<i64>,
    pub single_bwd: Option<i64>,
    pub acc_limit: Option<i64>,
    pub warn_on_jump: bool,
}

#[cfg(kani)]
pub fn any_step_cfg() -> StepCfg {
    let in_startup: bool = kani::any();
    let acc0: i64 = kani::any();
    kani::assume(acc0 >= 0);
    let start_fwd = any_limit();
    let start_bwd = any_limit();
    let single_fwd = any_limit();
    let single_bwd = any_limit();
    let lim_some: bool = kani::any();
    let lim: i64 = kani::any();
    let acc_limit = if lim_some { Some(lim) } else { None };
    let warn_on_jump: bool = kani::any();
    StepCfg { in_startup, acc0, start_fwd, start_bwd, single_fwd, single_bwd, acc_limit, warn_on_jump }
}

pub fn sync_config(c: &StepCfg) -> SynchronizationConfig {
    SynchronizationConfig {
        startup_step_panic_threshold: StepThreshold { forward: dur_opt(c.start_fwd), backward: dur_opt(c.start_bwd) },
        single_step_panic_threshold: StepThreshold { forward: dur_opt(c.single_fwd), backward: dur_opt(c.single_bwd) },
        accumulated_step_panic_threshold: dur_opt(c.acc_limit),
        warn_on_jump: c.warn_on_jump,
        ..SynchronizationConfig::default()
    }
}

/// publish the harness's own copy of the limits to the recording clock
pub fn arm_step_policy(c: &StepCfg) {
    unsafe {
        P_STARTUP = c.in_startup;
        P_ACC0 = c.acc0;
        P_START_FWD = c.start_fwd;
        P_START_BWD = c.start_bwd;
        P_SINGLE_FWD = c.single_fwd;
        P_SINGLE_BWD = c.single_bwd;
        P_ACC_LIMIT = c.acc_limit;
        POLICY_ON = true;
    }
}
pub fn arm_freq_policy(max: f64) {
    unsafe {
        P_MAX_FREQ = max;
        FREQ_POLICY_ON = true;
    }
}

pub fn timedata(acc0: i64, limit: Option<i64>) -> TimeSnapshot {
    TimeSnapshot {
        accumulated_steps: tt::dur_from_raw(acc0),
        accumulated_steps_threshold: dur_opt(limit),
        ..TimeSnapshot::default()
    }
}

pub fn controller(
    sc: &StepCfg,
    algo: AlgorithmConfig,
    freq_offset: f64,
    desired_freq: f64,
) -> KalmanClockController<RecClock> {
    kh::controller_from_raw(RecClock, sync_config(sc), algo, freq_offset, timedata(sc.acc0, sc.acc_limit), desired_freq, sc.in_startup)
}

/// Model of the standard library's stable sort (`[T]::sort_by` -> `alloc::slice::stable_sort`):
/// a stable insertion sort by adjacent swaps. std's driftsort/small-sort network with a symbolic
/// slice length does not get through symbolic execution (measured: > 6 min for <= 6 elements).
pub fn stable_sort_stub<T, F>(v: &mut [T], mut is_less: F)
where
    F: FnMut(&T, &T) -> bool,
{
    let n = v.len();
    let mut i = 1;
    while i < n {
        let mut j = i;
        while j > 0 && is_less(&v[j], &v[j - 1]) {
            v.swap(j, j - 1);
            j -= 1;
        }
        i += 1;
    }
}

// ---------------------------------------------------------------- sqrt as an uninterpreted function
/// `f64::sqrt` replaced by an arbitrary *deterministic* function with the basic shape of a square
/// root (NaN for negative/NaN input, 0 -> 0, +inf -> +inf, otherwise an arbitrary non-negative
/// finite value; equal inputs give equal outputs). CBMC's own sqrt model costs two 53-bit
/// multipliers per call and `select` re-evaluates the radius of every candidate inside an iterator
/// whose position is symbolic. The selection property only compares radii, it never relies on
/// what sqrt computes. Table filled by the harness up front (no `kani::any()` in the stub).
pub const SQRT_SLOTS: usize = 4;
pub static mut SQRT_IN: [u64; SQRT_SLOTS] = [0; SQRT_SLOTS];
pub static mut SQRT_OUT: [f64; SQRT_SLOTS] = [0.0; SQRT_SLOTS];
pub static mut SQRT_OTHER: f64 = 0.0;
pub fn sqrt_uf(x: f64) -> f64 {
    if x.is_nan() || x < 0.0 {
        return f64::NAN;
    }
    if x == 0.0 || x == f64::INFINITY {
        return x;
    }
    unsafe {
        let b = x.to_bits();
        let mut i = 0;
        while i < SQRT_SLOTS {
            if SQRT_IN[i] == b {
                return SQRT_OUT[i];
            }
            i += 1;
        }
        SQRT_OTHER
    }
}
/// register `sqrt(input) = output` (first registration of an input wins, as in the lookup)
pub fn sqrt_uf_define(slot: usize, input: f64, output: f64) {
    unsafe {
        SQRT_IN[slot] = input.to_bits();
        SQRT_OUT[slot] = output;
    }
}

// ---------------------------------------------------------------- Vec growth
/// `Vec::push` / `Vec::reserve` without the reallocation path. With a symbolic length every
/// `push` makes symbolic execution enter `grow_amortized` -> `realloc` with symbolic sizes (a
/// symbolic-length memcpy per push; measured: CBMC runs out of 8 GB for two candidates).
/// The vectors in `select` are allocated with enough capacity for the bounded inputs
/// (`with_capacity(2 * n)`; `collect()` starts at capacity 4); the stubs *assert* that no growth
/// is needed, so an input that would grow a vector is reported, not mis-modelled.
pub fn vec_push_nogrow<T, A: std::alloc::Allocator>(v: &mut Vec<T, A>, value: T) {
    let len = v.len();
    assert!(len < v.capacity(), "Vec::push within the allocated capacity (growth is not modelled)");
    unsafe {
        std::ptr::write(v.as_mut_ptr().add(len), value);
        v.set_len(len + 1);
    }
}
pub fn vec_reserve_nogrow<T, A: std::alloc::Allocator>(v: &mut Vec<T, A>, additional: usize) {
    assert!(v.capacity() - v.len() >= additional, "Vec::reserve within the allocated capacity (growth is not modelled)");
}

// ---------------------------------------------------------------- Iterator::collect in one pass
/// `iter.collect::<Vec<_>>()` modelled as one `for_each` pass into a vector allocated with the
/// iterator's upper size bound. std's `Vec::from_iter` pulls elements with `next()`; for a
/// `Filter` over a slice every `next()` is a search loop whose start position is symbolic after
/// the first hit, so bounded unwinding instantiates the filter predicate (unwind+1)^2 times
/// (measured for `select`: 12 M clauses for 3 candidates). `for_each` visits every slice element
/// exactly once with a concrete position. Same elements, same order.
pub trait CollectOnePass: Iterator + Sized {
    fn collect_one_pass<B: FromIterator<Self::Item>>(self) -> B {
        let (_, upper) = self.size_hint();
        let cap = match upper {
            Some(n) => n,
            None => 0,
        };
        let mut v: Vec<Self::Item> = Vec::with_capacity(cap);
        self.for_each(|x| vec_push_nogrow(&mut v, x));
        B::from_iter(v)
    }
}
impl<I: Iterator> CollectOnePass for I {}
