NP = "np_algo_h"
PROP = dict(
    functions=[
        "ntp_proto::algorithm::kalman::combiner::vote_leap (real code through a hook)",
        "apply site (syntactic, by reading algorithm/kalman/mod.rs:141-213): update_clock passes exactly select()'s result to combine(); combine() calls vote_leap(selection) on that same slice; the result is handed to NtpClock::status_update and stored in timedata.leap_indicator only when it is Some, otherwise both are left unchanged",
    ],
    bounds="every multiset of leap indicators {NoWarning, Leap61, Leap59, Unknown} over 0..=6 selected sources",
    outside="more than 6 selected sources; the update_clock -> status_update link beyond the syntactic note (c04_apply of the design: update_clock needs a populated HashMap of sources; inserting two sources with concrete keys was still inside hashbrown's find_or_find_insert_index_inner after 7 min of symbolic execution: measured); Unsynchronized inside a selection (vote_leap panics; select never returns such a source: asserted by c03_select)",
    assumptions=["no selected source is Unsynchronized (guaranteed by select, see C03)"],
    harnesses=[
        H(NP, "c04", "c04_vote", "vote_leap == Some(l) iff count(l)*2 > number of sources with known leap status, None otherwise (independent recount)", timeout=300),
        H("np_algo_h", "cupd", "cupd_consensus_step", "update_clock hands exactly the voted leap indicator to the kernel and keeps the previous one without a majority", timeout=900, native_check="native::native_leap_applied_exactly"),
    H("np_algo_h", "cupd", "cupd_no_consensus", "no consensus: previous leap indicator kept", timeout=600),
],
)
