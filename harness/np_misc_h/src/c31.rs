//! Harnesses for property C31 (see /verif/properties.jsonl).
use crate::stubs;
