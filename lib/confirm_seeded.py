#!/usr/bin/env python3
"""Confirm seeded changes in a scratch worktree (outside /repo and /verif): demo passes without the
change, fails with it, and the touched crate's existing tests still pass with it.
usage: confirm_seeded.py <id> [<id> ...]   (ids = directory names under /verif/seeded)"""
import json, os, re, subprocess, sys, time
WT = "/tmp/confirm_wt"
TGT = "/tmp/confirm_target"
ENV = dict(os.environ, CARGO_TARGET_DIR=TGT, CARGO_NET_OFFLINE="true")

def sh(cmd, **kw):
    return subprocess.run(cmd, shell=True, cwd=WT, env=ENV, stdout=subprocess.PIPE, stderr=subprocess.STDOUT, text=True, **kw)

def touch_changed():
    sh("git status --porcelain | awk '{print $2}' | xargs -r touch; find . -name '*.rs' -newer .git -print0 2>/dev/null | head -c0")
    sh("find ntp-proto/src ntpd/src statime-*/src -name '*.rs' -print0 | xargs -0 touch")

def summarize(out):
    res = re.findall(r"test result: (\w+)\. (\d+) passed; (\d+) failed", out)
    return res

def main():
    if not os.path.exists(WT):
        subprocess.run(["git", "-C", "/repo", "worktree", "add", "-q", "--detach", WT, "HEAD"], check=True)
    for mid in sys.argv[1:]:
        d = "/verif/seeded/" + mid
        meta = json.load(open(d + "/meta.json"))
        rec = {"id": mid, "when": time.strftime("%F %T"), "repo_head": subprocess.run("git -C /repo rev-parse --short HEAD", shell=True, stdout=subprocess.PIPE, text=True).stdout.strip()}
        sh("git checkout -q --detach $(git -C /repo rev-parse HEAD) && git checkout -q -- . && git clean -fdq -e target")
        demo_cmd = re.sub(r"export\s+CARGO_TARGET_DIR=\S+\s*;?\s*", "", meta["demo_cmd"])
        demo_cmd = re.sub(r"CARGO_TARGET_DIR=\S+\s*", "", demo_cmd)
        demo_cmd = re.sub(r"cd\s+/tmp/mut/\S+\s*&&\s*", "", demo_cmd).strip()
        crates = sorted(set(f.split("/")[0] for f in meta.get("files", [])))
        a = sh("git apply %s/demo.diff" % d)
        if a.returncode:
            rec["error"] = "demo.diff does not apply on current HEAD: " + a.stdout[-300:]
        else:
            touch_changed()
            r1 = sh(demo_cmd, timeout=3000)
            rec["demo_without_change"] = {"rc": r1.returncode, "results": summarize(r1.stdout)}
            a = sh("git apply %s/patch.diff" % d)
            if a.returncode:
                rec["error"] = "patch.diff does not apply on current HEAD: " + a.stdout[-300:]
            else:
                touch_changed()
                r2 = sh(demo_cmd, timeout=3000)
                rec["demo_with_change"] = {"rc": r2.returncode, "results": summarize(r2.stdout), "tail": r2.stdout[-600:]}
                sh("git apply -R %s/demo.diff" % d)
                touch_changed()
                suite = []
                for c in crates:
                    extra = " --lib" if c == "ntpd" else ""
                    pk = "-p statime-csptp -p ntp-proto" if c == "statime-csptp" else "-p " + c
                    r3 = sh("cargo test %s --offline --no-fail-fast%s" % (pk, extra), timeout=3000)
                    failed = re.findall(r"^test (\S+) \.\.\. FAILED", r3.stdout, re.M)
                    suite.append({"crate": c, "results": summarize(r3.stdout), "failed_tests": failed})
                rec["suite_with_change"] = suite
                known_bad = {"daemon::spawn::csptp::tests::creates_a_source", "daemon::spawn::csptp::tests::recreates_a_source"}
                rec["confirmed"] = bool(rec["demo_without_change"]["rc"] == 0 and r2.returncode != 0 and
                                        all(set(s["failed_tests"]) <= known_bad | set(["daemon::ntp_source::tests::test_deny_stops_poll"]) for s in suite))
        json.dump(rec, open(d + "/confirm.json", "w"), indent=1)
        print(mid, "confirmed" if rec.get("confirmed") else "NOT CONFIRMED", rec.get("error", ""), flush=True)

main()
