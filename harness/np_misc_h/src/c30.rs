//! C30 NTS-KE messages are parsed totally, boundedly and round-trip.
//!
//! The parsers are `async fn`s over `tokio::io::AsyncRead`. All readers used here are in-memory and
//! always ready, so the futures complete in the first `poll` with a no-op waker
//! (`block_on_ready` asserts that).
//!
//! Oracles are written from RFC 8915 section 4 / the property text, not from the code:
//!   * a record is `type(2, top bit = critical) | body length(2) | body`;
//!   * Error/Warning/Port bodies are exactly one u16, id lists are whole u16s, algorithm
//!     descriptions whole u16 pairs, fixed keys two halves of equal length, names are UTF-8;
//!   * an accepted record was completely present in the input and was consumed exactly;
//!   * re-serialising an accepted record reproduces the consumed bytes (up to the critical bit
//!     of known types and the ignored bodies of EndOfMessage/KeepAlive) and parses back equal.
use crate::stubs;
use ntp_proto::verif::nts::messages::{KeRequest, Response};
use ntp_proto::verif::nts::record as rh;
use ntp_proto::verif::nts::record::Record;
use ntp_proto::verif::nts::{Aead, KeErrorCode, KeWarningCode};
use std::borrow::Cow;
use std::future::Future;
use std::pin::{Pin, pin};
use std::task::{Context, Poll, Waker};
use tokio::io::{AsyncRead, AsyncReadExt, ReadBuf};

/// Poll a future once with a no-op waker; every reader/writer in this module is always ready.
/// The completed future is deliberately not dropped: the drop glue of an `async fn` state machine
/// switches over all suspension points and drops every possible sub-future (for
/// `NtsRecord::parse` that is 15 sub-parsers with their buffers), which costs more symbolic
/// execution than the parse itself (measured: 36 s -> see registry notes). A completed future
/// owns nothing any more, so nothing is leaked that matters.
pub fn block_on_ready<F: Future>(fut: F) -> F::Output {
    let mut fut = std::mem::ManuallyDrop::new(fut);
    // Safety: `fut` is a local that is never moved again (and never dropped).
    let pinned = unsafe { Pin::new_unchecked(&mut *fut) };
    let mut cx = Context::from_waker(Waker::noop());
    match pinned.poll(&mut cx) {
        Poll::Ready(v) => v,
        Poll::Pending => panic!("in-memory future was not ready at the first poll"),
    }
}

/// Loop-free equality of byte strings of at most 12 bytes (keeps the unwinding bound small).
fn eq_bytes(a: &[u8], b: &[u8]) -> bool {
    let n = a.len();
    n == b.len()
        && n <= 12
        && (n < 1 || a[0] == b[0])
        && (n < 2 || a[1] == b[1])
        && (n < 3 || a[2] == b[2])
        && (n < 4 || a[3] == b[3])
        && (n < 5 || a[4] == b[4])
        && (n < 6 || a[5] == b[5])
        && (n < 7 || a[6] == b[6])
        && (n < 8 || a[7] == b[7])
        && (n < 9 || a[8] == b[8])
        && (n < 10 || a[9] == b[9])
        && (n < 11 || a[10] == b[10])
        && (n < 12 || a[11] == b[11])
}

fn be16(b: &[u8], at: usize) -> u16 {
    ((b[at] as u16) << 8) | b[at + 1] as u16
}

/// Serialise into a fixed buffer (no Vec growth); returns the number of bytes written.
fn serialize_record(r: &Record<'_>, out: &mut [u8]) -> Option<usize> {
    let mut cur = std::io::Cursor::new(out);
    match block_on_ready(r.serialize(&mut cur)) {
        Ok(()) => Some(cur.position() as usize),
        Err(e) => {
            std::mem::forget(e);
            None
        }
    }
}


/// In-memory reader: a 4-byte record header that is always completely available (copied with
/// concrete lengths, so that a concrete record type stays concrete for the parser's dispatch)
/// followed by a body of symbolic length. Always ready.
pub struct HeadBody<'a> {
    pub head: [u8; 4],
    pub head_pos: usize,
    pub body: &'a [u8],
    pub body_pos: usize,
}
/// Append `src` to the read buffer with plain byte stores. (`ReadBuf::put_slice` is a `memcpy`,
/// which CBMC models with array constraints that hide constants from symbolic execution; then
/// the record type and length read back by the parser are no longer constants, the dispatch is
/// not pruned and every read loop unwinds to the bound.)
fn put_bytes(buf: &mut ReadBuf<'_>, src: &[u8]) {
    let n = src.len();
    assert!(n <= buf.remaining());
    assert!(n <= 8);
    let dst = buf.initialize_unfilled_to(n);
    // unrolled by hand: independent of the harness' unwinding bound
    if n > 0 { dst[0] = src[0]; }
    if n > 1 { dst[1] = src[1]; }
    if n > 2 { dst[2] = src[2]; }
    if n > 3 { dst[3] = src[3]; }
    if n > 4 { dst[4] = src[4]; }
    if n > 5 { dst[5] = src[5]; }
    if n > 6 { dst[6] = src[6]; }
    if n > 7 { dst[7] = src[7]; }
    buf.advance(n);
}
impl AsyncRead for HeadBody<'_> {
    fn poll_read(mut self: Pin<&mut Self>, _cx: &mut Context<'_>, buf: &mut ReadBuf<'_>) -> Poll<std::io::Result<()>> {
        if self.head_pos < 4 {
            let n = std::cmp::min(4 - self.head_pos, buf.remaining());
            let p = self.head_pos;
            put_bytes(buf, &self.head[p..p + n]);
            self.head_pos += n;
        } else {
            let n = std::cmp::min(self.body.len() - self.body_pos, buf.remaining());
            let p = self.body_pos;
            put_bytes(buf, &self.body[p..p + n]);
            self.body_pos += n;
        }
        Poll::Ready(Ok(()))
    }
}

// -------------------------------------------------------------------------------------------
// c30_record_*: one record. Concrete per call: record type and critical bit (a symbolic type
// makes symbolic execution walk all 15 sub-parsers for every input). Symbolic: the announced body
// length (0..=65535), the body bytes and how many of them are available (0..=NB).
// Truncated headers: c30_record_short_header.
/// Run the body parser for record type `ty` on a reader positioned after the header.
fn sub_parse(ty: u16, rd: &mut HeadBody<'_>, size: u64) -> Result<Record<'static>, std::io::Error> {
    match ty {
        0 => block_on_ready(rh::sub_end_of_message(rd.take(size))),
        1 => block_on_ready(rh::sub_next_protocol(rd.take(size))),
        2 => block_on_ready(rh::sub_error(rd.take(size))),
        3 => block_on_ready(rh::sub_warning(rd.take(size))),
        4 => block_on_ready(rh::sub_aead_algorithm(rd.take(size))),
        5 => block_on_ready(rh::sub_new_cookie(rd.take(size))),
        6 => block_on_ready(rh::sub_server(rd.take(size))),
        7 => block_on_ready(rh::sub_port(rd.take(size))),
        8 => block_on_ready(rh::sub_keep_alive(rd.take(size))),
        9 => block_on_ready(rh::sub_supported_next_protocol_list(rd.take(size))),
        10 => block_on_ready(rh::sub_supported_algorithm_list(rd.take(size))),
        12 => block_on_ready(rh::sub_fixed_key_request(rd.take(size))),
        13 => block_on_ready(rh::sub_ntp_server_deny(rd.take(size))),
        14 => block_on_ready(rh::sub_authentication(rd.take(size))),
        _ => panic!("no body parser for this type: use the full parser"),
    }
}

/// `full`: drive `NtsRecord::parse` (header + dispatch + body); otherwise drive the body parser of
/// the type directly on `Take(announced length)` exactly as `parse` sets it up.
/// `fixed`: concrete (announced length, available bytes) instead of symbolic ones.
fn record_body<const NB: usize>(ty: u16, crit: bool, full: bool, fixed: Option<(usize, usize)>) -> Option<usize> {
    let body_bytes: [u8; NB] = kani::any();
    let (size_field, blen) = match fixed {
        Some(f) => f,
        None => {
            let size_field: usize = kani::any();
            let blen: usize = kani::any();
            kani::assume(blen <= NB && size_field <= 65535);
            (size_field, blen)
        }
    };
    // header bytes are built from the concrete parameters only (kept apart from the symbolic body
    // so that they stay constants for the parser's dispatch and length handling)
    let head = [(ty >> 8) as u8 | if crit { 0x80 } else { 0 }, ty as u8, (size_field >> 8) as u8, size_field as u8];
    let len = 4 + blen;
    let mut bytes = [0u8; 16];
    bytes[..4].copy_from_slice(&head);
    bytes[4..4 + NB].copy_from_slice(&body_bytes);
    let mut rd = HeadBody { head, head_pos: 0, body: &body_bytes[..blen], body_pos: 0 };
    let res = if full {
        block_on_ready(Record::parse(&mut rd))
    } else {
        rd.head_pos = 4;
        sub_parse(ty, &mut rd, size_field as u64)
    };
    let consumed = rd.head_pos + rd.body_pos;
    assert!(consumed <= len, "never reads past the input");
    match res {
        Err(e) => {
            // (dropping an `io::Error` walks the drop glue of every `dyn Error` in the program)
            std::mem::forget(e);
            // Independent completeness spot checks (RFC 8915): a complete opaque record
            // (NewCookie, unknown type) is never rejected.
            if size_field + 4 <= len {
                assert!(ty != 5 && ty != 11 && ty < 15, "complete opaque record rejected");
                if ty == 6 || ty == 13 || ty == 14 {
                    assert!(std::str::from_utf8(&body_bytes[..size_field]).is_err(), "complete UTF-8 name record rejected");
                }
            }
            None
        }
        Ok(r) => {
            let critical = crit;
            let size = size_field;
            assert!(4 + size <= len, "accepted a record whose announced body is not completely present");
            assert!(consumed == 4 + size, "an accepted record is consumed exactly (header + announced body)");
            let body = &bytes[4..4 + size];
            // per-type body shape (RFC 8915 section 4.1)
            match ty {
                2 | 3 | 7 => assert!(size == 2, "Error/Warning/Port body must be exactly one u16"),
                1 | 4 | 9 => assert!(size % 2 == 0, "id list body must be whole u16s"),
                10 => assert!(size % 4 == 0, "algorithm description list must be whole (id,keysize) pairs"),
                12 => assert!(size % 2 == 0, "fixed key request carries two keys of equal length"),
                6 | 13 | 14 => assert!(std::str::from_utf8(body).is_ok(), "name bodies must be UTF-8"),
                _ => {}
            }
            // Value checks against the wire bytes. The variant is determined by the (concrete) type;
            // the value is re-materialised with a constant discriminant so that `serialize` and `==`
            // below are executed for this one variant only (the discriminant of the parser's result
            // is opaque to symbolic execution, which would otherwise walk all 15 serialiser arms).
            macro_rules! bad {
                () => {{
                    assert!(false, "record type parsed into the wrong variant");
                    return None;
                }};
            }
            let r: Record<'_> = match ty {
                0 => match r {
                    Record::EndOfMessage => Record::EndOfMessage,
                    other => {
                        std::mem::forget(other);
                        bad!()
                    }
                },
                8 => match r {
                    Record::KeepAlive => Record::KeepAlive,
                    other => {
                        std::mem::forget(other);
                        bad!()
                    }
                },
                7 => match r {
                    Record::Port { port } => {
                        assert!(port == be16(body, 0), "port value");
                        Record::Port { port }
                    }
                    other => {
                        std::mem::forget(other);
                        bad!()
                    }
                },
                2 => match r {
                    Record::Error { errorcode } => {
                        assert!(u16::from(errorcode) == be16(body, 0), "error code value");
                        Record::Error { errorcode }
                    }
                    other => {
                        std::mem::forget(other);
                        bad!()
                    }
                },
                3 => match r {
                    Record::Warning { warningcode } => {
                        assert!(u16::from(warningcode) == be16(body, 0), "warning code value");
                        Record::Warning { warningcode }
                    }
                    other => {
                        std::mem::forget(other);
                        bad!()
                    }
                },
                5 => match r {
                    Record::NewCookie { cookie_data } => {
                        assert!(eq_bytes(cookie_data.as_ref(), body), "cookie bytes");
                        Record::NewCookie { cookie_data }
                    }
                    other => {
                        std::mem::forget(other);
                        bad!()
                    }
                },
                6 => match r {
                    Record::Server { name } => {
                        assert!(eq_bytes(name.as_bytes(), body), "server name bytes");
                        Record::Server { name }
                    }
                    other => {
                        std::mem::forget(other);
                        bad!()
                    }
                },
                13 => match r {
                    Record::NtpServerDeny { denied } => {
                        assert!(eq_bytes(denied.as_bytes(), body), "denied name bytes");
                        Record::NtpServerDeny { denied }
                    }
                    other => {
                        std::mem::forget(other);
                        bad!()
                    }
                },
                14 => match r {
                    Record::Authentication { key } => {
                        assert!(eq_bytes(key.as_bytes(), body), "authentication key bytes");
                        Record::Authentication { key }
                    }
                    other => {
                        std::mem::forget(other);
                        bad!()
                    }
                },
                12 => match r {
                    Record::FixedKeyRequest { c2s, s2c } => {
                        assert!(c2s.len() == size / 2 && s2c.len() == size / 2, "key halves");
                        assert!(eq_bytes(c2s.as_ref(), &body[..size / 2]) && eq_bytes(s2c.as_ref(), &body[size / 2..]), "key bytes");
                        Record::FixedKeyRequest { c2s, s2c }
                    }
                    other => {
                        std::mem::forget(other);
                        bad!()
                    }
                },
                4 => match r {
                    Record::AeadAlgorithm { algorithm_ids } => {
                        assert!(algorithm_ids.len() == size / 2, "algorithm id count");
                        if size >= 2 {
                            assert!(u16::from(algorithm_ids[0]) == be16(body, 0), "algorithm id value");
                        }
                        if size >= 4 {
                            assert!(u16::from(algorithm_ids[1]) == be16(body, 2), "algorithm id value");
                        }
                        Record::AeadAlgorithm { algorithm_ids }
                    }
                    other => {
                        std::mem::forget(other);
                        bad!()
                    }
                },
                // element types of these three lists are private to ntp-proto: cannot be rebuilt
                // here; their values are checked through the serialised bytes below
                1 => match r {
                    Record::NextProtocol { .. } => r,
                    other => {
                        std::mem::forget(other);
                        bad!()
                    }
                },
                9 => match r {
                    Record::SupportedNextProtocolList { .. } => r,
                    other => {
                        std::mem::forget(other);
                        bad!()
                    }
                },
                10 => match r {
                    Record::SupportedAlgorithmList { .. } => r,
                    other => {
                        std::mem::forget(other);
                        bad!()
                    }
                },
                _ => match r {
                    Record::Unknown { record_type, critical: c, data } => {
                        assert!(record_type == ty && c == critical && eq_bytes(data.as_ref(), body), "unknown record fields");
                        Record::Unknown { record_type, critical: c, data }
                    }
                    other => {
                        std::mem::forget(other);
                        bad!()
                    }
                },
            };
            // re-serialise: reproduces the consumed bytes and parses back to the same value
            let mut out = [0u8; 16];
            let n = serialize_record(&r, &mut out);
            assert!(n.is_some(), "an accepted record can be serialised");
            let n = n.unwrap();
            assert!(be16(&out, 0) & 0x7fff == ty, "record type preserved");
            if ty == 11 || ty >= 15 {
                assert!((out[0] & 0x80 != 0) == critical, "critical bit of unknown records preserved");
            }
            if ty == 0 || ty == 8 {
                assert!(n == 4 && be16(&out, 2) == 0, "EndOfMessage/KeepAlive serialise with an empty body");
            } else {
                assert!(n == 4 + size, "serialised length equals consumed length");
                assert!(eq_bytes(&out[2..n], &bytes[2..n]), "serialised length field and body equal the consumed bytes");
            }
            // (header bytes rebuilt from the concrete type so that the dispatch stays concrete; their
            // equality with `out` is asserted above / here)
            let crit2 = out[0] & 0x80 != 0;
            let h0 = (ty >> 8) as u8;
            assert!(out[0] & 0x7f == h0 && out[1] == ty as u8);
            let mut rd2 = HeadBody { head: [if crit2 { h0 | 0x80 } else { h0 }, ty as u8, out[2], out[3]], head_pos: 0, body: &out[4..n], body_pos: 0 };
            // Re-parse. To keep one `NtsRecord::parse` per harness (each costs ~5M SAT variables) the
            // serialisation is parsed back through the body parser of its type (its header was
            // compared byte for byte above); unknown types have no body parser: their
            // serialisation equals the consumed input byte for byte, which was just parsed to `r`.
            let has_body_parser = ty <= 14 && ty != 11;
            if !has_body_parser {
                assert!(full && out[0] == head[0] && out[1] == head[1] && n == 4 + size, "unknown record serialises to its input");
                std::mem::forget(r);
                return Some(size);
            }
            rd2.head_pos = 4;
            let back = sub_parse(ty, &mut rd2, be16(&out, 2) as u64);
            match back {
                Ok(r2) => {
                    assert!(r2 == r, "serialise . parse is the identity on accepted records");
                    std::mem::forget(r2);
                }
                Err(e) => {
                    std::mem::forget(e);
                    assert!(false, "re-serialised record is rejected");
                }
            }
            assert!(rd2.head_pos + rd2.body_pos == n, "re-parse consumes the whole serialisation");
            std::mem::forget(r);
            Some(size)
        }
    }
}

macro_rules! body_harness {
    ($name:ident, $ty:expr, $crit:expr, $unwind:expr, $maxsize:expr) => {
        #[kani::proof]
        #[kani::unwind($unwind)]
        fn $name() {
            let r = record_body::<4>($ty, $crit, false, None);
            kani::cover!(r.is_none(), "rejected");
            kani::cover!(r == Some($maxsize), "accepted with the largest body in bounds");
        }
    };
}
macro_rules! fixed_body_harness {
    ($name:ident, $ty:expr, $crit:expr, $unwind:expr, $ok:expr, $bad:expr) => {
        #[kani::proof]
        #[kani::unwind($unwind)]
        fn $name() {
            // complete layout: accepted
            let r = record_body::<4>($ty, $crit, false, Some($ok));
            assert!(r.is_some(), "well-formed body rejected");
            // malformed layout (truncated or wrong length): rejected
            let r = record_body::<4>($ty, $crit, false, Some($bad));
            assert!(r.is_none(), "malformed body accepted");
        }
    };
}
macro_rules! name_body_harness {
    ($name:ident, $ty:expr, $crit:expr, $unwind:expr, $ok:expr, $bad:expr) => {
        #[kani::proof]
        #[kani::unwind($unwind)]
        fn $name() {
            // complete layout: accepted iff the symbolic body is UTF-8 (asserted in record_body)
            let r = record_body::<4>($ty, $crit, false, Some($ok));
            kani::cover!(r.is_some(), "accepted");
            kani::cover!(r.is_none(), "rejected: not UTF-8");
            let r = record_body::<4>($ty, $crit, false, Some($bad));
            assert!(r.is_none(), "truncated body accepted");
        }
    };
}
macro_rules! full_harness {
    ($name:ident, $ty:expr, $crit:expr, $unwind:expr, $layout:expr, $accept:expr) => {
        #[kani::proof]
        #[kani::unwind($unwind)]
        fn $name() {
            let r = record_body::<4>($ty, $crit, true, Some($layout));
            // expected outcome of this layout according to RFC 8915
            assert!(r.is_some() == $accept, "layout accepted/rejected against the record format");
        }
    };
}
// Body parsers, driven directly.
// Fixed-size bodies: announced length 0..=65535 and 0..=4 available bytes, all symbolic.
body_harness!(c30_body_02_error, 2, true, 4, 2);
body_harness!(c30_body_03_warning, 3, true, 4, 2);
body_harness!(c30_body_07_port, 7, true, 4, 2);
// Variable-size bodies: a symbolic announced length makes `Vec::with_capacity(len)` /
// `vec![0; len]` symbolic-size heap objects (measured: out of memory at 8 GB for one id list and
// for one cookie). Layout templates instead: (announced length, available bytes) concrete, body
// bytes symbolic; one accepted and one rejected layout per type.
fixed_body_harness!(c30_body_00_end_of_message, 0, true, 5, (3, 3), (3, 2));
fixed_body_harness!(c30_body_01_next_protocol, 1, true, 4, (2, 2), (1, 1));
fixed_body_harness!(c30_body_04_aead_algorithm, 4, true, 4, (2, 2), (2, 1));
fixed_body_harness!(c30_body_05_new_cookie, 5, false, 6, (4, 4), (4, 3));
name_body_harness!(c30_body_06_server, 6, true, 6, (4, 4), (4, 3));
fixed_body_harness!(c30_body_08_keep_alive, 8, false, 5, (0, 0), (1, 0));
fixed_body_harness!(c30_body_09_supported_protocols, 9, true, 4, (2, 2), (1, 1));
fixed_body_harness!(c30_body_10_supported_algorithms, 10, true, 4, (4, 4), (2, 2));
fixed_body_harness!(c30_body_12_fixed_key_request, 12, true, 6, (4, 4), (3, 3));
name_body_harness!(c30_body_13_server_deny, 13, false, 6, (3, 3), (3, 2));
name_body_harness!(c30_body_14_authentication, 14, false, 6, (2, 2), (4, 2));
// `NtsRecord::parse` as a whole (header, critical bit, dispatch, unknown types) on concrete
// layouts (announced length, available bytes) with symbolic body bytes: one `parse` costs ~40 s of
// symbolic execution and ~5M SAT variables (the state machine is a union over 15 sub-parsers,
// two of them with 512-byte buffers), so one layout per harness.
full_harness!(c30_full_07_port, 7, false, 4, (2, 2), true);
full_harness!(c30_full_15_unknown_critical, 15, true, 6, (3, 3), true);
full_harness!(c30_full_7fff_unknown, 0x7fff, false, 6, (0, 0), true);
full_harness!(c30_full_11_unassigned_truncated, 11, false, 6, (4, 3), false);
full_harness!(c30_full_00_end_of_message, 0, false, 5, (1, 1), true);
full_harness!(c30_full_04_aead_algorithm, 4, true, 4, (4, 4), true);
full_harness!(c30_full_05_new_cookie, 5, true, 6, (4, 4), true);
full_harness!(c30_full_02_error_oversize, 2, false, 4, (3, 3), false);

/// Truncated headers (0..=3 bytes available): always an error. The available bytes are concrete
/// (type Port, critical) except the third one, so that the failing read is decided during
/// symbolic execution and the 15 body parsers are not walked for every length.
#[kani::proof]
#[kani::unwind(6)]
fn c30_record_short_header() {
    let x: u8 = kani::any();
    let bytes = [0x80u8, 0x07, x];
    let mut len = 0;
    while len < 4 {
        let mut rd = HeadBody { head: [bytes[0], bytes[1], bytes[2], 0], head_pos: 4 - len, body: &[], body_pos: 0 };
        // the reader starts `len` bytes before its end of header: shift the available bytes
        let mut i = 0;
        while i < len {
            rd.head[4 - len + i] = bytes[i];
            i += 1;
        }
        let res = block_on_ready(Record::parse(&mut rd));
        match res {
            Ok(r) => {
                std::mem::forget(r);
                assert!(false, "accepted a record without a complete header");
            }
            Err(e) => std::mem::forget(e),
        }
        len += 1;
    }
}
