//! Harnesses for property C07 (see /verif/properties.jsonl):
//! for an NTS source, a datagram that is not authenticated under the session's s2c key and bound to
//! the pending request has no observable effect; new cookies only come from the encrypted part of
//! an authenticated response.
//!
//! Shape of every harness: an NTS source (NTPv4 or NTPv5 — the two versions an NTS key exchange
//! can produce) with an arbitrary stash and arbitrary poll/reach state performs one REAL
//! `handle_timer` (so the pending unique identifier and origin/cookie are the real, random ones),
//! then receives ONE datagram built from a layout template whose type/length fields are fixed and
//! whose content bytes are symbolic. The attacker may copy the unique identifier and the origin
//! timestamp / client cookie from the request (they travel in clear text).
//!
//! Authenticity is decided by the ideal-AEAD model (common.rs): `authentic` = "the server really
//! produced exactly this AAD/nonce/ciphertext under s2c". A datagram is *bound* to the pending
//! request iff its unique-identifier field (inside the authenticated part) equals the request's and
//! its origin timestamp (v4) / client cookie (v5) equals the request's.
use crate::common::*;
use crate::stubs;
use ntp_proto::verif::packet::v5::server_reference_id as bh;
use ntp_proto::verif::source as sh;
use ntp_proto::verif::time_types as th;
use ntp_proto::*;

const DRAFT: &[u8; 23] = b"draft-ietf-ntp-ntpv5-09";

/// Layout template: header48 [+ draft-id EF (v5)] + uid EF(36) [+ Y: EF of `y_len` bytes, symbolic
/// type] [+ NTS authenticator EF with a 16-byte nonce and `inner` encrypted 16-byte EFs of symbolic
/// type] [+ X: trailing EF of `x_len` bytes, symbolic type].
#[derive(Clone, Copy)]
pub struct Layout {
    pub v5: bool,
    /// NTPv5 flag byte 15 (bit 0 synchronized, bit 2 authnak), concrete per harness: a symbolic value
    /// makes the header parse result symbolic and with it every offset behind it
    pub b15: u8,
    /// ideal-AEAD outcome for the authenticator of this datagram, concrete per harness (a symbolic
    /// Ok/Err through `?` costs two orders of magnitude)
    pub authentic: bool,
    pub y_len: usize,
    pub has_nts: bool,
    pub inner: usize,
    pub x_len: usize,
}

impl Layout {
    pub const fn uid_off(&self) -> usize {
        if self.v5 { 48 + 28 } else { 48 }
    }
    pub const fn y_off(&self) -> usize {
        self.uid_off() + 36
    }
    pub const fn nts_off(&self) -> usize {
        self.y_off() + self.y_len
    }
    pub const fn ct_len(&self) -> usize {
        16 * self.inner + TAG_LEN
    }
    pub const fn nts_len(&self) -> usize {
        if self.has_nts { 8 + NONCE_LEN + self.ct_len() } else { 0 }
    }
    pub const fn x_off(&self) -> usize {
        self.nts_off() + self.nts_len()
    }
    pub const fn total(&self) -> usize {
        self.x_off() + self.x_len
    }
}

fn put16(b: &mut [u8], off: usize, v: usize) {
    b[off] = (v >> 8) as u8;
    b[off + 1] = v as u8;
}

/// which part of the input space a harness looks at
#[derive(Clone, Copy, PartialEq, Eq)]
pub enum Split {
    /// everything the template allows
    Main,
    /// only unauthenticated NTPv5 datagrams with stratum 0, the authnak flag and a poll byte that
    /// reads as RATE (> own interval) or DENY (127): the region in which the tree before 9b98367
    /// raised the poll rate / demobilised the source without authentication
    AuthnakKiss,
}

fn c07_body(lay: Layout, msg: &mut [u8], split: Split) -> Obs {
    // ---- all symbolic values up front
    stubs::symbolic_clock();
    let valid: usize = kani::any();
    kani::assume(valid <= MAX_COOKIES);
    let desired: i8 = kani::any();
    kani::assume(desired >= 4 && desired <= 10);
    let remote_min: i8 = kani::any();
    kani::assume(remote_min >= 4 && remote_min <= 17);
    let reach: u8 = kani::any();
    let tries: usize = kani::any();
    kani::assume(tries <= 4);
    let have_deny: bool = kani::any();
    let stratum0: u8 = kani::any();
    // the pending request: arbitrary unique identifier, origin timestamp / client cookie, deadline
    let req_uid: [u8; 32] = kani::any();
    let req_origin: u64 = kani::any();
    let dl = any_deadline();
    let uid_match: bool = kani::any();
    let origin_match: bool = kani::any();
    let authentic: bool = lay.authentic;
    let send_raw: u64 = kani::any();
    let recv_raw: u64 = kani::any();
    // universally quantified byte position inside a 12-byte cookie
    let jq: usize = kani::any();
    kani::assume(jq < 12);
    assert!(msg.len() == lay.total());

    // ---- pre-state: an NTS source that has a request in flight (what `handle_timer` leaves
    // behind: c13_poll_* check that the pending identifier is the one on the wire)
    let stash = stash0(valid, vec![0xAA, 0xBB, 0xCC, 0xDD]);
    let nts = sh::nts_data_with_stash(stash, c2s(), s2c());
    let version = if lay.v5 { ProtocolVersion::V5 } else { ProtocolVersion::V4 };
    let mut src = new_source(version, SourceConfig::default(), poll(desired), Some(nts));
    sh::set_remote_min_poll_interval(&mut src, poll(remote_min));
    sh::set_last_poll_interval(&mut src, poll(core::cmp::max(desired, remote_min)));
    sh::set_reach(&mut src, reach);
    sh::set_tries(&mut src, tries);
    sh::set_have_deny(&mut src, have_deny);
    sh::set_stratum(&mut src, stratum0);
    let deadline = deadline_from_now(&dl);
    sh::set_pending(&mut src, Some((th::ts_from_raw(req_origin), Some(req_uid), deadline)));
    let req_origin_bytes = req_origin.to_be_bytes();

    // ---- the datagram: fixed framing, symbolic content
    if lay.v5 {
        msg[48] = 0xF5;
        msg[49] = 0xFF;
        put16(msg, 50, 4 + 23);
        put_bytes(msg, 52, DRAFT);
        msg[75] = 0;
    }
    // version bits as the source expects them (other versions are dropped before anything is
    // looked at: C12)
    // (leap bits 0, mode 4 = server: a response; other modes are dropped by the last check before
    // process_message and leap bits only travel into the measurement)
    msg[0] = if lay.v5 { 0x2C } else { 0x24 };
    if lay.v5 {
        // timescale UTC, flag byte 14 zero (anything else is a parse error); flag byte 15 per harness
        msg[12] = 0;
        msg[14] = 0;
        msg[15] = lay.b15;
    }
    // field types: Y (in front of the authenticator) and X (after it) are a cookie in clear (v4) or
    // a reference-id response in clear (v5); every encrypted field is a cookie or an unknown field
    if lay.y_len > 0 {
        msg[lay.y_off()] = if lay.v5 { 0xF5 } else { 0x02 };
        msg[lay.y_off() + 1] = 0x04;
    }
    if lay.x_len > 0 {
        msg[lay.x_off()] = if lay.v5 { 0xF5 } else { 0x02 };
        msg[lay.x_off() + 1] = 0x04;
    }
    {
        let mut k = 0;
        while k < lay.inner {
            let o = lay.nts_off() + 8 + NONCE_LEN + 16 * k;
            let is_cookie = msg[o] & 1 == 1;
            msg[o] = if is_cookie { 0x02 } else { 0x43 };
            msg[o + 1] = if is_cookie { 0x04 } else { 0x21 };
            k += 1;
        }
    }
    let u = lay.uid_off();
    msg[u] = 0x01;
    msg[u + 1] = 0x04;
    put16(msg, u + 2, 36);
    if uid_match {
        put_bytes(msg, u + 4, &req_uid);
    }
    if origin_match {
        put_bytes(msg, 24, &req_origin_bytes);
    }
    if lay.y_len > 0 {
        put16(msg, lay.y_off() + 2, lay.y_len);
    }
    let n_off = lay.nts_off();
    if lay.has_nts {
        msg[n_off] = 0x04;
        msg[n_off + 1] = 0x04;
        put16(msg, n_off + 2, lay.nts_len());
        put16(msg, n_off + 4, NONCE_LEN);
        put16(msg, n_off + 6, lay.ct_len());
        let mut k = 0;
        while k < lay.inner {
            put16(msg, n_off + 8 + NONCE_LEN + 16 * k + 2, 16);
            k += 1;
        }
        expect_extents(msg, n_off, lay.ct_len(), authentic);
    } else {
        unsafe {
            AUTHENTIC = false;
        }
    }
    if lay.x_len > 0 {
        put16(msg, lay.x_off() + 2, lay.x_len);
    }

    // "bound to the pending request", decided on the bytes
    let uid_same = eq_words(&msg[u + 4..u + 36], &req_uid, 32);
    let origin_same = eq_words(&msg[24..32], &req_origin_bytes, 8);
    let bound = uid_same && origin_same;

    // ---- observable state before
    let st0 = sh::state(&src);
    let ctl0_meas = sh::controller(&src).n_meas;
    let ctl0_usable_calls = sh::controller(&src).n_usable;
    let bloom0 = {
        let (f, chunk, last, next, filled) = bh::remote_raw(sh::bloom_filter(&src));
        (f.as_bytes()[0], f.as_bytes()[15], chunk, last.is_some(), next, filled)
    };
    assert!(st0.pending && ctl0_meas == 0);

    // an UNAUTHENTICATED NTPv5 datagram with stratum 0 and the authnak flag is let through by
    // `valid_server_response` (NTS-NAK exception); it must then be treated as an NTS-NAK (no effect)
    // even if its poll byte reads as RATE or DENY (fixed in 9b98367: the NTS-NAK branch comes first)
    let pollb = msg[2] as i8;
    let last = th::poll_raw(st0.last_poll_interval);
    let authnak_kiss = lay.v5 && msg[1] == 0 && (msg[15] & 0b100) != 0 && (pollb == 127 || pollb > last);
    // a datagram the model could authenticate at all (decided before the call)
    let may_accept = authentic && lay.has_nts && bound;
    if split == Split::AuthnakKiss {
        kani::assume(authnak_kiss && !may_accept);
    }
    // the pending request has not expired at the clock reading of handle_incoming (ghost clock)
    let timely = ghost_in_time(deadline);

    // ---- the call under test
    let (racts, rn) = collect_actions(src.handle_incoming(msg, th::ts_from_raw(send_raw), th::ts_from_raw(recv_raw)));

    let dec_ok = unsafe { DEC_OK > 0 };
    assert!(!dec_ok || (authentic && lay.has_nts), "model sanity: only the genuine triple decrypts");
    assert!(unsafe { DEC_WRONG_KEY == 0 }, "responses are only ever checked under the s2c key");
    let accepted_ok = dec_ok && bound;

    let st1 = sh::state(&src);
    let n_meas = sh::controller(&src).n_meas;
    let processed = n_meas > 0;
    let bloom1 = {
        let (f, chunk, last, next, filled) = bh::remote_raw(sh::bloom_filter(&src));
        (f.as_bytes()[0], f.as_bytes()[15], chunk, last.is_some(), next, filled)
    };

    if !accepted_ok {
        assert!(rn == 0, "unauthenticated/unbound datagram: no action (no demobilisation, no reset)");
        assert!(n_meas == 0, "unauthenticated/unbound datagram: no measurement");
        assert!(sh::controller(&src).n_usable == ctl0_usable_calls, "unauthenticated/unbound datagram: usability not re-evaluated");
        assert!(st1.remote_min_poll_interval == st0.remote_min_poll_interval, "unauthenticated/unbound datagram: no poll-rate change");
        assert!(st1.protocol_version == st0.protocol_version, "unauthenticated/unbound datagram: no protocol-version change");
        assert!(st1.cookies == st0.cookies, "unauthenticated/unbound datagram: no stored cookie");
        assert!(st1.reach == st0.reach && st1.pending == st0.pending, "unauthenticated/unbound datagram: reachability and pending request untouched");
        assert!(st1.have_deny_rstr_response == st0.have_deny_rstr_response, "unauthenticated/unbound datagram: deny flag untouched");
        assert!(st1.stratum == st0.stratum && st1.reference_id == st0.reference_id, "unauthenticated/unbound datagram: stratum/reference id untouched");
        assert!(st1 == st0, "unauthenticated/unbound datagram: no state change at all");
        assert!(bloom1 == bloom0, "unauthenticated/unbound datagram: Bloom filter untouched");
    }

    // a Bloom-filter chunk is only taken from an authenticated (pre-authenticator) field
    let y_is_refid_response = lay.y_len > 0 && msg[lay.y_off()] == 0xF5 && msg[lay.y_off() + 1] == 0x04;
    if !y_is_refid_response {
        assert!(bloom1 == bloom0, "Bloom filter only changes through an authenticated reference-id response");
    }

    // cookies: only from the encrypted part
    let c0 = st0.cookies.unwrap();
    let c1 = st1.cookies.unwrap();
    if processed {
        assert!(n_meas == 2, "a processed response yields the two measurements");
        let mut want_new = 0usize;
        let mut k = 0;
        while k < lay.inner {
            let o = n_off + 8 + NONCE_LEN + 16 * k;
            if msg[o] == 0x02 && msg[o + 1] == 0x04 {
                want_new += 1;
            }
            k += 1;
        }
        assert!(c1 == core::cmp::min(MAX_COOKIES, c0 + want_new), "exactly the cookies of the encrypted part are stored");
        // content of the newest cookies = bodies of the encrypted cookie fields, in order
        let nd = sh::nts_mut(&mut src).unwrap();
        let mut seen = 0usize;
        let mut k = 0;
        while k < lay.inner {
            let o = n_off + 8 + NONCE_LEN + 16 * k;
            if msg[o] == 0x02 && msg[o + 1] == 0x04 {
                let idx = c1 - want_new + seen;
                let c = sh::nts_peek_cookie(nd, idx).unwrap();
                assert!(c.len() == 12, "stored cookie = body of the encrypted cookie field");
                assert!(c[jq] == msg[o + 4 + jq], "stored cookie bytes come from the encrypted part (every byte)");
                seen += 1;
            }
            k += 1;
        }
    } else {
        assert!(c1 == c0, "nothing is stored unless a response is processed");
    }

    // the source is not dropped (dropping the 8-slot stash is a loop of 8 = a larger unwind bound)
    core::mem::forget(src);
    Obs {
        processed,
        got_cookie: processed && c1 > c0,
        forged_bound: !accepted_ok && bound && lay.has_nts && !authentic,
        replay: !accepted_ok && dec_ok,
        auth_kiss: accepted_ok && rn == 1,
        unauth_kiss_bound: !accepted_ok && bound && msg[1] == 0,
        unauth_bound: !accepted_ok && bound,
        authnak_deny: !accepted_ok && bound && timely && authnak_kiss && pollb == 127,
        authnak_rate: !accepted_ok && bound && timely && authnak_kiss && pollb != 127,
    }
}

/// what happened, for the per-template vacuity guards
pub struct Obs {
    processed: bool,
    got_cookie: bool,
    forged_bound: bool,
    replay: bool,
    auth_kiss: bool,
    unauth_kiss_bound: bool,
    unauth_bound: bool,
    /// in-time, correctly identified, unauthenticated NTS-NAK whose poll byte reads as DENY / RATE
    authnak_deny: bool,
    authnak_rate: bool,
}

/// templates with an authenticator field that the server really produced
macro_rules! c07_genuine {
    ($name:ident, $lay:expr) => {
        nharness! {
            #[kani::unwind(8)]
            #[kani::stub(core::str::from_utf8, crate::common::from_utf8_ascii_model)]
            #[kani::stub(core::slice::ascii::is_ascii, crate::common::is_ascii_model)]
            fn $name() {
                const L: Layout = $lay;
                // backing array one byte longer than the datagram (one-past-the-end folding)
                let mut msg: [u8; L.total() + 1] = kani::any();
                let o = c07_body(L, &mut msg[..L.total()], Split::Main);
                kani::cover!(o.processed, "a genuine response is processed");
                kani::cover!(o.got_cookie, "a genuine response delivers a cookie");
                kani::cover!(o.replay, "genuine but not bound to the pending request (replay)");
                kani::cover!(o.auth_kiss, "authenticated kiss-o'-death acts");
            }
        }
    };
}
/// genuine authenticator without encrypted fields, a cookie / Bloom chunk in clear next to it
macro_rules! c07_genuine_nocookie {
    ($name:ident, $lay:expr) => {
        nharness! {
            #[kani::unwind(8)]
            #[kani::stub(core::str::from_utf8, crate::common::from_utf8_ascii_model)]
            #[kani::stub(core::slice::ascii::is_ascii, crate::common::is_ascii_model)]
            fn $name() {
                const L: Layout = $lay;
                let mut msg: [u8; L.total() + 1] = kani::any();
                let o = c07_body(L, &mut msg[..L.total()], Split::Main);
                assert!(!o.got_cookie, "a cookie in clear is never stored");
                kani::cover!(o.processed, "a genuine response is processed");
                kani::cover!(o.replay, "genuine but not bound to the pending request (replay)");
            }
        }
    };
}
/// templates with an authenticator field that is a forgery
macro_rules! c07_forged {
    ($name:ident, $lay:expr) => {
        nharness! {
            #[kani::unwind(8)]
            #[kani::stub(core::str::from_utf8, crate::common::from_utf8_ascii_model)]
            #[kani::stub(core::slice::ascii::is_ascii, crate::common::is_ascii_model)]
            fn $name() {
                const L: Layout = $lay;
                let mut msg: [u8; L.total() + 1] = kani::any();
                let o = c07_body(L, &mut msg[..L.total()], Split::Main);
                assert!(!o.processed && !o.auth_kiss, "nothing is accepted from a forged datagram");
                kani::cover!(o.forged_bound, "forgery with the right identifiers");
            }
        }
    };
}
/// templates without an authenticator field (nothing can be authentic)
macro_rules! c07_plain {
    ($name:ident, $lay:expr) => {
        nharness! {
            #[kani::unwind(8)]
            #[kani::stub(core::str::from_utf8, crate::common::from_utf8_ascii_model)]
            #[kani::stub(core::slice::ascii::is_ascii, crate::common::is_ascii_model)]
            fn $name() {
                const L: Layout = $lay;
                let mut msg: [u8; L.total() + 1] = kani::any();
                let o = c07_body(L, &mut msg[..L.total()], Split::Main);
                assert!(!o.processed && !o.auth_kiss, "nothing is accepted without an authenticator");
                kani::cover!(o.unauth_kiss_bound, "unauthenticated kiss code with the right identifiers");
                kani::cover!(o.unauth_bound, "unauthenticated datagram with the right identifiers");
            }
        }
    };
}
/// the region of the former defect (see `Split::AuthnakKiss`): must leave everything unchanged
macro_rules! c07_authnak_kiss {
    ($name:ident, $lay:expr) => {
        nharness! {
            #[kani::unwind(8)]
            #[kani::stub(core::str::from_utf8, crate::common::from_utf8_ascii_model)]
            #[kani::stub(core::slice::ascii::is_ascii, crate::common::is_ascii_model)]
            fn $name() {
                const L: Layout = $lay;
                let mut msg: [u8; L.total() + 1] = kani::any();
                let o = c07_body(L, &mut msg[..L.total()], Split::AuthnakKiss);
                assert!(!o.processed && !o.auth_kiss, "nothing is accepted without an authenticator");
                kani::cover!(o.authnak_deny, "in-time unauthenticated NTS-NAK with the right identifiers that reads as DENY");
                kani::cover!(o.authnak_rate, "in-time unauthenticated NTS-NAK with the right identifiers that reads as RATE");
            }
        }
    };
}

const fn lay(v5: bool, b15: u8, authentic: bool, y_len: usize, has_nts: bool, inner: usize, x_len: usize) -> Layout {
    Layout { v5, b15, authentic, y_len, has_nts, inner, x_len }
}

// Registered (lib/props/C07.py): c07_v4_plain, c07_v5_plain_authnak, c07_v5_plain_sync,
// c07_v5_plain_authnak_kiss. NOT registered (symbolic execution of handle_incoming / deserialize
// exceeds 8 GB as soon as an authenticator field is decrypted, genuine or forged; kept for a machine
// with more memory): c07_v4_genuine*, c07_v4_forged, c07_v5_genuine*, c07_v5_forged, c07_parse_*.
// NTPv4
c07_plain!(c07_v4_plain, lay(false, 0, false, 0, false, 0, 28));
c07_genuine!(c07_v4_genuine, lay(false, 0, true, 0, true, 1, 0));
c07_genuine_nocookie!(c07_v4_genuine_pre, lay(false, 0, true, 16, true, 0, 0));
c07_genuine_nocookie!(c07_v4_genuine_post, lay(false, 0, true, 0, true, 0, 28));
c07_forged!(c07_v4_forged, lay(false, 0, false, 0, true, 1, 0));
c07_genuine!(c07_v4_genuine2, lay(false, 0, true, 0, true, 2, 0));
// NTPv5 (flag byte: 0x04 = authnak, 0x01 = synchronized)
c07_plain!(c07_v5_plain_authnak, lay(true, 0x04, false, 0, false, 0, 16));
c07_plain!(c07_v5_plain_sync, lay(true, 0x01, false, 0, false, 0, 16));
c07_genuine!(c07_v5_genuine, lay(true, 0x01, true, 0, true, 1, 0));
c07_genuine_nocookie!(c07_v5_genuine_pre, lay(true, 0x01, true, 20, true, 0, 0));
c07_genuine_nocookie!(c07_v5_genuine_post, lay(true, 0x01, true, 0, true, 0, 20));
c07_forged!(c07_v5_forged, lay(true, 0x04, false, 0, true, 1, 0));
c07_authnak_kiss!(c07_v5_plain_authnak_kiss, lay(true, 0x04, false, 0, false, 0, 0));

// ------------------------------------------------------------------------------------------
// Parser level: which fields of an authenticated datagram end up in which trust class and which
// cookies `new_cookies()` (the only source of stored cookies in `process_message`) yields.
// `handle_incoming` on a datagram with a genuine authenticator does not fit in 8 GB (see the props
// file), so the authenticated/encrypted split is decided here on `NtpPacket::deserialize` itself.
// Layout: hdr48 + uid(36) + cookie in clear(16) + authenticator(1 encrypted 16-byte field: cookie or
// unknown) + cookie in clear(28).
/// `pre`/`post`: a 16/28-byte cookie field in clear in front of / behind the authenticator;
/// `inner`: number of encrypted 16-byte fields (each a cookie or an unknown field), 0 or 1.
fn c07_parse_body<const N: usize>(authentic: bool, pre: bool, inner: usize, post: bool) {
    use ntp_proto::verif::packet as ph;
    use ntp_proto::verif::packet::extension_fields::ExtField;
    let n_off = if pre { 100 } else { 84 };
    let ct_len = 16 * inner + TAG_LEN;
    let nts_len = 8 + NONCE_LEN + ct_len;
    let total = n_off + nts_len + if post { 28 } else { 0 };
    assert!(N == total + 1);
    let mut msg: [u8; N] = kani::any();
    let jq: usize = kani::any();
    kani::assume(jq < 12);
    msg[0] = 0x24;
    // uid
    msg[48] = 0x01;
    msg[49] = 0x04;
    put16(&mut msg, 50, 36);
    if pre {
        msg[84] = 0x02;
        msg[85] = 0x04;
        put16(&mut msg, 86, 16);
    }
    // authenticator
    msg[n_off] = 0x04;
    msg[n_off + 1] = 0x04;
    put16(&mut msg, n_off + 2, nts_len);
    put16(&mut msg, n_off + 4, NONCE_LEN);
    put16(&mut msg, n_off + 6, ct_len);
    let o = n_off + 8 + NONCE_LEN;
    let mut is_cookie = false;
    if inner == 1 {
        is_cookie = msg[o] & 1 == 1;
        msg[o] = if is_cookie { 0x02 } else { 0x43 };
        msg[o + 1] = if is_cookie { 0x04 } else { 0x21 };
        put16(&mut msg, o + 2, 16);
    }
    if post {
        let x = n_off + nts_len;
        msg[x] = 0x02;
        msg[x + 1] = 0x04;
        put16(&mut msg, x + 2, 28);
    }
    expect_extents(&msg[..total], n_off, ct_len, authentic);

    let cipher = ModelCipher { id: [S2C_ID] };
    let provider: Option<&dyn Cipher> = Some(&cipher);
    let r = NtpPacket::deserialize(&msg[..total], &provider);
    match r {
        Ok((p, _)) => {
            assert!(authentic, "a datagram whose authenticator does not verify is never returned as a packet");
            assert!(unsafe { DEC_OK == 1 && DEC_WRONG_KEY == 0 });
            // trust classes
            let auth = ph::packet_authenticated(&p);
            let enc = ph::packet_encrypted(&p);
            let unt = ph::packet_untrusted(&p);
            assert!(auth.len() == if pre { 2 } else { 1 } && enc.len() == inner && unt.len() == if post { 1 } else { 0 },
                "fields in front of the authenticator are authenticated, its plaintext is encrypted, the rest is untrusted");
            assert!(matches!(auth[0], ExtField::UniqueIdentifier(_)));
            // cookie intake
            let mut n_new = 0usize;
            for c in p.new_cookies() {
                n_new += 1;
                assert!(is_cookie, "a cookie is only yielded if the encrypted part holds one");
                assert!(c.len() == 12 && c[jq] == msg[o + 4 + jq], "the yielded cookie is the encrypted one (every byte)");
            }
            assert!(n_new == if is_cookie { 1 } else { 0 }, "new cookies = exactly the cookie fields of the encrypted part; cookies in clear are never yielded");
            if inner == 1 {
                kani::cover!(n_new == 1, "a cookie is delivered");
            }
            kani::cover!(n_new == 0, "no cookie in the encrypted part");
            core::mem::forget(p);
        }
        Err(e) => {
            assert!(!authentic, "a genuine datagram of this layout parses");
            assert!(unsafe { DEC_OK == 0 });
            kani::cover!(unsafe { DEC_CALLS == 1 }, "decryption was attempted and failed");
            core::mem::forget(e);
        }
    }
}

nharness! {
    #[kani::unwind(8)]
    fn c07_parse_v4_genuine() {
        c07_parse_body::<141>(true, false, 1, false);
    }
}

nharness! {
    #[kani::unwind(8)]
    fn c07_parse_v4_genuine_clear() {
        c07_parse_body::<169>(true, true, 0, true);
    }
}

nharness! {
    #[kani::unwind(8)]
    fn c07_parse_v4_forged() {
        c07_parse_body::<141>(false, false, 1, false);
    }
}
