NP = "np_packet_h"
_REQ = [("header", "0..48"), ("uid_hdr", "48..52"), ("uid_body", "52..60"), ("cookie_hdr", "60..64"), ("cookie_body", "64..72"),
        ("auth_words", "72..80"), ("auth_body", "80..112"), ("trailer", "112..116")]
_RESP = [("header", "0..48"), ("uid_hdr", "48..52"), ("uid_body", "52..60"), ("auth_words", "60..68"), ("auth_body", "68..112"), ("trailer", "112..116")]
PROP = dict(
    functions=[
        "ntp_proto::packet::NtpPacket::deserialize<{ProbeCipher, ModelCipher}> (v4 path), NtpPacket::{nts_poll_message, serialize<ModelCipher>} (c25_*_real_serializer)",
        "ntp_proto::packet::extension_fields::{ExtensionFieldData::{deserialize,serialize}, ExtensionField::encode_encrypted, RawEncryptedField::{from_message_bytes,decrypt}}",
    ],
    bounds="NTPv4. Tamper images use an 8-byte unique id and an 8-byte cookie (116 bytes; with the 32/16-byte sizes of the real client the solver runs out of memory at 12 GB, measured; both bodies are opaque to the decoder). Request image = header (byte 0 = 0x23, the other 47 bytes arbitrary) + unique id field + cookie field + authenticator written by the real ExtensionField::encode_encrypted with the ideal-AEAD ModelCipher (arbitrary nonce and tag) + 4 arbitrary trailer bytes; response image = header (byte 0 = 0xE4) + unique id field + authenticator over one new cookie + trailer. c25_*_real_serializer: NtpPacket::serialize of nts_poll_message(16-byte cookie, 1) (32-byte unique id) / of the corresponding response packet produces exactly the image built by the same assembly functions (instantiated with 32/16). Tampering: XOR of an arbitrary non-zero mask (all 255: every single-bit and single-byte change) into the byte at an arbitrary position, one harness per region. Decomposition (the decoder depends on the cipher only through decrypt's return value): tamper harnesses decode with a recording, always-refusing cipher and decide outside the decoder whether the ideal AEAD would have accepted the recorded (associated data, nonce, ciphertext) triple; region A: never the logged triple and nothing authentic is reported; region C: exactly the logged triple; the accepting behaviour (lists == original content) is decided with the accepting ModelCipher by c25_untampered and c25_*_trailer_accept.",
    outside="real AES-SIV (idealised, DESIGN 2.6); NTPv5 NTS packets; requests with placeholders; server-side cookie recovery through KeySet (with client keys the returned cookie is observed to be None; KeySet::get/decode_cookie are exercised by C23/C26); changes of more than one byte; region B (the authenticator's own four words) with the accepting cipher: shown is that the AEAD is asked either about the logged triple or about something it refuses, and that a refusal reports nothing authentic",
    assumptions=["ideal AEAD: decrypt succeeds iff key, associated data, nonce and ciphertext||tag are exactly what encrypt recorded"],
    stub_notes=[
        "common::ModelCipher / common::ProbeCipher implement the public Cipher trait (no #[kani::stub]); ghost log of the one encryption per key, ghost record of up to two decrypt calls",
        "rand::thread_rng via the standard ghost tape (symbolic) in c25_req_real_serializer: unique id and transmit timestamp of the request are arbitrary",
        "hooks: encode_encrypted_hook (thin wrapper), packet_from_parts, packet_authenticated/encrypted/untrusted getters, request_identifier_parts",
        "core::str::from_utf8 / is_ascii ASCII-only models, Cargo.toml cbmc-args (see C23)",
    ],
    harnesses=[
        H(NP, "c25", "c25_untampered", "valid request/response accepted with exactly the expected authenticated/encrypted content (accepting cipher)", tier="thorough"),
        H(NP, "c25", "c25_auth_encoder", "hand-assembled authenticator + ghost log == real ExtensionField::encode_encrypted with ModelCipher (request and response)", tier="thorough"),
        H(NP, "c25", "c25_req_real_serializer", "NtpPacket::serialize(nts_poll_message) == assembled request image", tier="thorough"),
        H(NP, "c25", "c25_resp_real_serializer", "NtpPacket::serialize(response) == assembled response image", tier="thorough"),
        H(NP, "c25", "c25_req_trailer_accept", "request, trailer byte changed, accepting cipher: same authentic content", tier="thorough"),
        H(NP, "c25", "c25_resp_trailer_accept", "response, trailer byte changed, accepting cipher: same authentic content", tier="thorough"),
    ]
    + [H(NP, "c25", "c25_req_" + n, "request, tampered byte in %s" % r, tier=("quick" if n in ("uid_body", "auth_body") else "thorough"), timeout=600) for n, r in _REQ]
    + [H(NP, "c25", "c25_resp_" + n, "response, tampered byte in %s" % r, tier=("quick" if n in ("auth_body",) else "thorough"), timeout=600) for n, r in _RESP],
)
