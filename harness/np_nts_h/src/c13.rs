//! Harnesses for property C13 (see /verif/properties.jsonl).
use crate::stubs;
