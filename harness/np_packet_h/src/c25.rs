//! Harnesses for property C25 (see /verif/properties.jsonl).
use crate::stubs;
