NS = "np_server_h"
PROP = dict(
    extractors=['daemon_server_call_shape'],
    functions=[
        "ntp_proto::server::Server<SymClock>::handle in the daemon's call shape (request = &buf[..length], send buffer = &mut send_buf[..length] of a larger zeroed array; mirrored from ntpd/src/daemon/server.rs ServerTask::serve)",
        "ntp_proto::packet::NtpPacket::{deserialize, timestamp_response, deny_response, serialize}, ExtensionFieldData::{deserialize, serialize}, ExtensionField::encode_unique_identifier",
    ],
    bounds=("first byte and length constant per harness, extension-field type/length words constant, everything else symbolic (header, field contents, MAC bytes, "
            "synchronisation state, clock readings). NTPv3/v4 plain: 48 B and 48+{4,20,24} B MAC, response kinds time / DENY (deny list, allow list, NTS required). "
            "NTPv4 templates up to 120 B: unique id 36 B (alone, +20 B MAC, twice), unique id 16 B + 12 B MAC "
            "(answer re-encoded to the RFC 7822 minimum fits exactly). Policy concrete per harness (one response kind each)."),
    outside=("requests with two fields of which the first is not echoed (c16_wire_v4_unknown_uid_time, c16_wire_v4_cookie_ph_time: 15 min cap hit; kept, not registered); NTPv5 answers (c16_wire_v5_*: time answer with draft identification + padding does not finish: 7 GB after 10 min; harnesses kept, not registered); answers "
             "that do NOT fit the request-sized buffer (c16_wire_v4_uid16_mac9_time: any serialisation failure drags symex through the drop glue of "
             "std::io::Error / Box<dyn Error>: out of memory at 8 GB; by construction nothing can be sent then: the cursor is bounded by the slice); undecryptable NTS "
             "requests (see C15); requests longer than 120 B and other field combinations; NTS requests with valid cookies / placeholders (size of fresh cookies: C17-C19 harnesses of "
             "np_srvnts_h assert the same bound); the daemon's call shape itself is tied to the source text by the lead's extractor (this file only mirrors it); "
             "symbolic field type words (every decoder/encoder branch per field: does not finish)"),
    assumptions=[
        "server stratum != 0; root delay, precision >= 0, root delay <= 65535 s; root dispersion = arbitrary non-negative duration <= 65535 s (stub)",
        "send buffer is exactly as long as the request (daemon call shape) and neither slice ends at the end of its backing array",
    ],
    stub_notes=[
        "TimeSnapshot::root_dispersion -> arbitrary non-negative NtpDuration chosen up front",
        "AesSivCmac512/256::decrypt -> Err; core::str::from_utf8 -> unchecked; <[u8]>::is_ascii -> byte loop; zeroize barrier -> no-op",
        "rand::thread_rng draws (NTPv5 server cookie) = arbitrary ghost tape values",
    ],
    harnesses=[
        H(NS, "c16", "c16_wire_v4_time", "NTPv4 48 B: time answer is 48 B"),
        H(NS, "c16", "c16_wire_v4_deny", "NTPv4 48 B: DENY kiss is 48 B"),
        H(NS, "c16", "c16_wire_v4_deny_nts", "NTPv4 48 B: DENY (NTS required) is 48 B"),
        H(NS, "c16", "c16_wire_v4_mac4_time", "NTPv4 + 4 B MAC: answer 48 B <= 52"),
        H(NS, "c16", "c16_wire_v4_uid36_time", "NTPv4 + 36 B unique id: echoed, answer <= request"),
        H(NS, "c16", "c16_wire_v4_uid16_mac12_time", "NTPv4 + 16 B unique id + 12 B MAC: re-encoded to 28 B, fits exactly"),
        H(NS, "c22", "c22_any_v4_56", "NTPv4 + 8 B trailer: answer 48 B"),
        H(NS, "c16", "c16_wire_v4_deny_allow", "NTPv4 48 B: DENY (allow list)", tier="thorough"),
        H(NS, "c16", "c16_wire_v3_time", "NTPv3 48 B time", tier="thorough"),
        H(NS, "c16", "c16_wire_v3_deny", "NTPv3 48 B DENY", tier="thorough"),
        H(NS, "c16", "c16_wire_v3_mac20_time", "NTPv3 + 20 B MAC", tier="thorough"),
        H(NS, "c16", "c16_wire_v4_mac24_deny", "NTPv4 + 24 B MAC, DENY", tier="thorough"),
        H(NS, "c16", "c16_wire_v4_uid36_deny", "NTPv4 + unique id: DENY echoes it", tier="thorough"),
        H(NS, "c16", "c16_wire_v4_uid36_mac20_time", "NTPv4 + unique id + 20 B MAC", tier="thorough"),
        H(NS, "c16", "c16_wire_v4_uid36x2_time", "NTPv4 + two unique ids (120 B)", tier="thorough"),
        H(NS, "c22", "c22_any_v3_53_55", "NTPv3 53/54/55 B", tier="thorough"),
        H("np_srvnts_h", "c19", "c19_cookies_p2", "NTS time answers: a fresh cookie is only issued for a request field at least as long as the cookie (shared with C19; the NTS path through handle() is out of reach)", timeout=1800, native_check="native::native_short_placeholders_get_no_cookie"),
],
)
