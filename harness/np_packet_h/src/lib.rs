//! Kani harnesses (external crate, path dependency on /repo).
#![feature(allocator_api)]
#![recursion_limit = "512"]
#![allow(unused, static_mut_refs)]
#[path = "../../common/stubs.rs"]
pub mod stubs;
#[path = "../../common/util.rs"]
#[macro_use]
pub mod util;
#[cfg(kani)]
#[macro_use]
mod common;
#[cfg(kani)]
mod c23;
#[cfg(kani)]
mod c24;
#[cfg(kani)]
mod c25;
#[cfg(kani)]
mod c34;
