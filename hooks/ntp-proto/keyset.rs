//! Safe-Rust verification hooks for this module (accessors/wrappers only; no logic).
#![allow(unused_imports, dead_code)]
use super::*;

// ---- C26/C27 (np_keyset_h): raw constructors / getters / thin wrappers for the cookie key set.
pub fn keyset_from_parts(keys: Vec<AesSivCmac512>, id_offset: u32, primary: u32) -> KeySet {
    KeySet { keys, id_offset, primary }
}
pub fn keyset_len(k: &KeySet) -> usize {
    k.keys.len()
}
pub fn keyset_id_offset(k: &KeySet) -> u32 {
    k.id_offset
}
pub fn keyset_primary(k: &KeySet) -> u32 {
    k.primary
}
pub fn keyset_key_bytes(k: &KeySet, i: usize) -> &[u8] {
    k.keys[i].key_bytes()
}
pub fn provider_from_parts(current: KeySet, history: usize) -> KeySetProvider {
    KeySetProvider { current: Arc::new(current), history }
}
pub fn provider_history(p: &KeySetProvider) -> usize {
    p.history
}
pub fn keyset_encode_cookie(k: &KeySet, cookie: &DecodedServerCookie) -> Vec<u8> {
    k.encode_cookie(cookie)
}
pub fn keyset_decode_cookie(k: &KeySet, cookie: &[u8]) -> Result<DecodedServerCookie, DecryptError> {
    k.decode_cookie(cookie)
}
/// `algorithm` is the IANA AEAD id (15 = AES-SIV-CMAC-256, 17 = AES-SIV-CMAC-512).
pub fn decoded_cookie_from_parts(algorithm: u16, s2c: Box<dyn Cipher>, c2s: Box<dyn Cipher>) -> DecodedServerCookie {
    DecodedServerCookie { algorithm: AeadAlgorithm::from(algorithm), s2c, c2s }
}
pub fn decoded_cookie_algorithm(c: &DecodedServerCookie) -> u16 {
    u16::from(c.algorithm)
}
