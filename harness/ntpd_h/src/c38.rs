//! C38 ntp-ctl reads exactly what the daemon publishes: framing cap and the f64 layer of durations.
//!
//! `read_json` is an `async fn` over `tokio::io::AsyncRead`; the in-memory readers here are always
//! ready, so the future completes at the first poll with a no-op waker.
use crate::stubs;
use ntp_proto::NtpDuration;
use ntp_proto::verif::time_types as th;
use ntpd::verif::daemon::sockets as h;
use std::future::Future;
use std::pin::{Pin, pin};
use std::task::{Context, Poll, Waker};
use tokio::io::{AsyncRead, ReadBuf};

pub fn block_on_ready<F: Future>(fut: F) -> F::Output {
    let mut fut = pin!(fut);
    let mut cx = Context::from_waker(Waker::noop());
    match fut.as_mut().poll(&mut cx) {
        Poll::Ready(v) => v,
        Poll::Pending => panic!("in-memory future was not ready at the first poll"),
    }
}

/// Counting reader: an 8-byte length prefix followed by an endless payload of a repeated byte.
/// Counts the bytes handed out and the number of reads that touched the payload.
pub struct Counting {
    pub prefix: [u8; 8],
    pub fill: u8,
    pub consumed: usize,
    pub payload_reads: usize,
}
impl AsyncRead for Counting {
    fn poll_read(mut self: Pin<&mut Self>, _cx: &mut Context<'_>, buf: &mut ReadBuf<'_>) -> Poll<std::io::Result<()>> {
        if self.consumed < 8 {
            let n = std::cmp::min(8 - self.consumed, buf.remaining());
            let p = self.consumed;
            buf.put_slice(&self.prefix[p..p + n]);
            self.consumed += n;
        } else {
            self.payload_reads += 1;
            // deliver at most 4 bytes per read (keeps copies small)
            let n = std::cmp::min(4, buf.remaining());
            let fill = [self.fill; 4];
            buf.put_slice(&fill[..n]);
            self.consumed += n;
        }
        Poll::Ready(Ok(()))
    }
}

const MIB: u64 = 1 << 20;

/// Every announced length above 1 MiB (up to u64::MAX): rejected after exactly the 8 prefix bytes,
/// without a single read of the payload and without growing the caller's buffer.
#[kani::proof]
#[kani::unwind(6)]
#[kani::stub(serde_json::from_slice, from_slice_stub)]
fn c38_cap() {
    let len: u64 = kani::any();
    let fill: u8 = kani::any();
    kani::assume(len > MIB);
    let mut rd = Counting { prefix: len.to_be_bytes(), fill, consumed: 0, payload_reads: 0 };
    let mut buffer: Vec<u8> = Vec::new();
    let res: std::io::Result<u8> = block_on_ready(h::read_json(&mut rd, &mut buffer));
    assert!(res.is_err(), "a message announcing more than 1 MiB must be rejected");
    // (dropping an `io::Error` walks the drop glue of every `dyn Error` in the program)
    std::mem::forget(res);
    assert!(rd.consumed == 8, "exactly the length prefix is consumed");
    assert!(rd.payload_reads == 0, "no payload is read");
    assert!(buffer.is_empty() && buffer.capacity() == 0, "no buffer is allocated for an oversized message");
    kani::cover!(len == MIB + 1, "smallest oversized length");
    kani::cover!(len == u64::MAX, "largest length");
    kani::cover!(len > u32::MAX as u64, "length beyond 32 bits");
}

/// Small announced lengths (1..=4) are not rejected at the prefix: the payload is read in full.
/// (Lengths between 5 and 1 MiB make `Vec::resize` loop up to 2^20 times: outside.)
#[kani::proof]
#[kani::unwind(6)]
#[kani::stub(serde_json::from_slice, from_slice_stub)]
fn c38_small() {
    let len: u64 = kani::any();
    let fill: u8 = kani::any();
    kani::assume(len >= 1 && len <= 4);
    let mut rd = Counting { prefix: len.to_be_bytes(), fill, consumed: 0, payload_reads: 0 };
    let mut buffer: Vec<u8> = Vec::new();
    let res: std::io::Result<u8> = block_on_ready(h::read_json(&mut rd, &mut buffer));
    std::mem::forget(res);
    assert!(rd.consumed == 8 + len as usize, "prefix and exactly the announced payload are consumed");
    assert!(buffer.len() == len as usize, "buffer holds the payload");
    assert!(buffer[0] == fill && buffer[len as usize - 1] == fill, "payload bytes delivered");
    kani::cover!(len == 4, "four byte payload");
}

/// serde_json's text parser is outside the claim (DESIGN C38): replaced by "always a syntax
/// error" so that only the framing is exercised.
pub fn from_slice_stub<'a, T: serde::Deserialize<'a>>(_v: &'a [u8]) -> serde_json::Result<T> {
    Err(serde_json::Error::io(std::io::Error::from(std::io::ErrorKind::InvalidData)))
}

// ------------------------------------------------------------------------------------------
// Duration (de)serialisation through the f64 layer.

/// Serializer that accepts exactly one f64 and captures it.
pub struct CaptureF64;
#[derive(Debug)]
pub struct NotF64;
impl std::fmt::Display for NotF64 {
    fn fmt(&self, f: &mut std::fmt::Formatter<'_>) -> std::fmt::Result {
        f.write_str("not an f64")
    }
}
impl std::error::Error for NotF64 {}
impl serde::ser::Error for NotF64 {
    fn custom<T: std::fmt::Display>(_msg: T) -> Self {
        NotF64
    }
}
impl serde::de::Error for NotF64 {
    fn custom<T: std::fmt::Display>(_msg: T) -> Self {
        NotF64
    }
}
macro_rules! reject {
    ($($name:ident($ty:ty)),*) => { $(fn $name(self, _v: $ty) -> Result<f64, NotF64> { Err(NotF64) })* };
}
impl serde::Serializer for CaptureF64 {
    type Ok = f64;
    type Error = NotF64;
    type SerializeSeq = serde::ser::Impossible<f64, NotF64>;
    type SerializeTuple = serde::ser::Impossible<f64, NotF64>;
    type SerializeTupleStruct = serde::ser::Impossible<f64, NotF64>;
    type SerializeTupleVariant = serde::ser::Impossible<f64, NotF64>;
    type SerializeMap = serde::ser::Impossible<f64, NotF64>;
    type SerializeStruct = serde::ser::Impossible<f64, NotF64>;
    type SerializeStructVariant = serde::ser::Impossible<f64, NotF64>;
    fn serialize_f64(self, v: f64) -> Result<f64, NotF64> {
        Ok(v)
    }
    reject!(serialize_bool(bool), serialize_i8(i8), serialize_i16(i16), serialize_i32(i32), serialize_i64(i64),
            serialize_u8(u8), serialize_u16(u16), serialize_u32(u32), serialize_u64(u64), serialize_f32(f32),
            serialize_char(char), serialize_str(&str), serialize_bytes(&[u8]));
    fn serialize_none(self) -> Result<f64, NotF64> {
        Err(NotF64)
    }
    fn serialize_some<T: ?Sized + serde::Serialize>(self, _v: &T) -> Result<f64, NotF64> {
        Err(NotF64)
    }
    fn serialize_unit(self) -> Result<f64, NotF64> {
        Err(NotF64)
    }
    fn serialize_unit_struct(self, _n: &'static str) -> Result<f64, NotF64> {
        Err(NotF64)
    }
    fn serialize_unit_variant(self, _n: &'static str, _i: u32, _v: &'static str) -> Result<f64, NotF64> {
        Err(NotF64)
    }
    fn serialize_newtype_struct<T: ?Sized + serde::Serialize>(self, _n: &'static str, _v: &T) -> Result<f64, NotF64> {
        Err(NotF64)
    }
    fn serialize_newtype_variant<T: ?Sized + serde::Serialize>(self, _n: &'static str, _i: u32, _v: &'static str, _t: &T) -> Result<f64, NotF64> {
        Err(NotF64)
    }
    fn serialize_seq(self, _l: Option<usize>) -> Result<Self::SerializeSeq, NotF64> {
        Err(NotF64)
    }
    fn serialize_tuple(self, _l: usize) -> Result<Self::SerializeTuple, NotF64> {
        Err(NotF64)
    }
    fn serialize_tuple_struct(self, _n: &'static str, _l: usize) -> Result<Self::SerializeTupleStruct, NotF64> {
        Err(NotF64)
    }
    fn serialize_tuple_variant(self, _n: &'static str, _i: u32, _v: &'static str, _l: usize) -> Result<Self::SerializeTupleVariant, NotF64> {
        Err(NotF64)
    }
    fn serialize_map(self, _l: Option<usize>) -> Result<Self::SerializeMap, NotF64> {
        Err(NotF64)
    }
    fn serialize_struct(self, _n: &'static str, _l: usize) -> Result<Self::SerializeStruct, NotF64> {
        Err(NotF64)
    }
    fn serialize_struct_variant(self, _n: &'static str, _i: u32, _v: &'static str, _l: usize) -> Result<Self::SerializeStructVariant, NotF64> {
        Err(NotF64)
    }
}

fn roundtrip(raw: i64) -> (f64, i64) {
    use serde::{Deserialize, Serialize};
    let d = th::dur_from_raw(raw);
    let secs = d.serialize(CaptureF64).expect("a duration serialises as one f64");
    let back = NtpDuration::deserialize(serde::de::value::F64Deserializer::<NotF64>::new(secs));
    match back {
        Ok(b) => (secs, th::dur_raw(b)),
        Err(_) => {
            assert!(false, "the f64 a duration serialises to is rejected on the way back");
            (secs, 0)
        }
    }
}

fn within_bound(raw: i64, back: i64) -> bool {
    // |back - raw| <= 1e-9 * |raw| + 1 unit, evaluated in i128 (raw / 10^9 rounded up)
    let diff = (back as i128 - raw as i128).abs();
    let mag = (raw as i128).abs();
    diff <= (mag + 999_999_999) / 1_000_000_000 + 1
}

/// Every duration: the published f64 is finite, keeps the sign, and reads back within
/// 1e-9 * |d| + one 2^-32 s unit.
#[kani::proof]
fn c38_dur() {
    let raw: i64 = kani::any();
    let (secs, back) = roundtrip(raw);
    assert!(secs.is_finite(), "published seconds are finite");
    assert!((secs < 0.0) == (raw < 0) && (secs == 0.0) == (raw == 0), "sign of the published value");
    assert!(within_bound(raw, back), "duration read back within one part per billion plus one unit");
    kani::cover!(back != raw, "round trip is not always exact");
    kani::cover!(raw == i64::MAX, "largest duration");
    kani::cover!(raw == i64::MIN, "smallest duration");
}

/// Restricted variant (|d| < 2^52 units = 2^20 s, exactly representable in f64).
#[kani::proof]
fn c38_dur_small() {
    let raw: i64 = kani::any();
    kani::assume(raw > -(1i64 << 52) && raw < (1i64 << 52));
    let (secs, back) = roundtrip(raw);
    assert!(secs.is_finite(), "published seconds are finite");
    assert!((secs < 0.0) == (raw < 0) && (secs == 0.0) == (raw == 0), "sign of the published value");
    assert!(within_bound(raw, back), "duration read back within one part per billion plus one unit");
    kani::cover!(back != raw, "round trip is not always exact");
}

/// Sign / finiteness clauses only (no bound on the error): every duration.
#[kani::proof]
fn c38_dur_sign() {
    let raw: i64 = kani::any();
    let (secs, back) = roundtrip(raw);
    assert!(secs.is_finite(), "published seconds are finite");
    assert!((secs < 0.0) == (raw < 0) && (secs == 0.0) == (raw == 0), "sign of the published value");
    assert!((back < 0) == (raw < 0) || back == 0 || raw == 0, "sign survives the round trip");
    kani::cover!(raw == i64::MIN, "smallest duration");
}
