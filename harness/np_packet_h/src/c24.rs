//! Harnesses for property C24 (see /verif/properties.jsonl).
use crate::stubs;
