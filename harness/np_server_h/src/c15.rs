//! Harnesses for property C15 (see /verif/properties.jsonl).
use crate::stubs;
