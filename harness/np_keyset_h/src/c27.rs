//! Harnesses for property C27 (see /verif/properties.jsonl).
use crate::stubs;
