NS = "np_server_h"
PROP = dict(
    functions=[
        "ntp_proto::server::Server<SymClock>::{handle, handle_inner}: every stats_handler.register call site (recording ServerStatHandler RecStats counts calls and keeps the last tuple)",
    ],
    bounds=("policy half (c15_policy_*/c15_reject_*): for every datagram the policy half ignores, register() was called exactly once with kind Ignore, the reason of the "
            "deciding step (Policy / RateLimit / ParseError), NTS flag clear and the datagram's version field; for every datagram it wants answered it registers nothing. "
            "Whole handle (c16_wire_*, c21_once, c22_*): exactly one registration, kind = the kind decoded from the response bytes (time / DENY / NAK) or Ignore when nothing "
            "is sent, reason Policy for time, NTS flag false for plain requests."),
    outside=("the serialisation-failure registration (InternalError, Ignore): c21_once_buf0/buf47 and c16_wire_v4_uid16_mac9_time run out of memory (drop glue of "
             "std::io::Error/Box<dyn Error> on every `?` of the serialiser; kept in the crate, not registered) - by reading, handle() registers exactly once on that "
             "branch too (native test native_answer_does_not_fit checks one instance); registrations for datagrams the parser rejects (see C15: paths do not fit; native sampling checks calls == 1 and (ParseError, Ignore)); NAK registration for undecryptable NTS requests (see C15: path does not fit; native test checks calls == 1); NTS requests whose cookie decodes (nts flag true for time/deny: C19 harnesses of np_srvnts_h); the mapping of (reason, kind) to ntpd's counters "
             "(c21_counters in ntpd_h); inputs outside the bounds of C15/C16"),
    assumptions=["as C15/C16"],
    stub_notes=["as C15/C16"],
    harnesses=[
        H(NS, "c21", "c21_once", "larger buffer than the request: one ProvideTime; rejected datagrams end-to-end: one (ParseError, Ignore) each"),
        H(NS, "c15", "c15_policy_v4", "ignored datagrams registered once with the deciding reason; answered ones not registered by the policy half"),
        H(NS, "c15", "c15_policy_ratelimit", "RateLimit reason", timeout=400),
        H(NS, "c15", "c15_reject_mode4", "non-client datagram: exactly one registration, kind Ignore, reason of the deciding step (Policy/ParseError), nts=false"),
        H(NS, "c16", "c16_wire_v4_time", "time answer registered once as ProvideTime/Policy"),
        H(NS, "c16", "c16_wire_v4_deny", "DENY registered once as Deny"),
        H(NS, "c16", "c16_wire_v4_deny_nts", "DENY (NTS required) registered once, nts=false"),
        H(NS, "c16", "c16_wire_v4_uid36_time", "time answer with echoed field registered once"),
        H(NS, "c15", "c15_reject_modes_v4", "policy half, symbolic policy: one registration with the deciding reason", tier="thorough"),
        H(NS, "c16", "c16_wire_v3_time", "NTPv3 time answer registered once", tier="thorough"),
    ],
)
