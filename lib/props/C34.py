NP = "np_packet_h"
_CS = [4, 8, 16, 32, 64, 128, 256, 512]
_QUICK = (4, 64, 512)
PROP = dict(
    functions=[
        "ntp_proto::packet::v5::server_reference_id::RemoteBloomFilter::{new,next_request,handle_response,advance_next_to_request,full_filter}",
        "ntp_proto::packet::v5::extension_fields::{ReferenceIdRequest::{new,decode,to_response,offset,payload_len}, ReferenceIdResponse::{decode,bytes}}",
        "ntp_proto::packet::v5::server_reference_id::BloomFilter::{new,add_id,contains_id,add,union,as_bytes}",
    ],
    bounds="chunk size c in {4,8,...,512} (one harness each). c34_step_c: ONE handle_response from an arbitrary state satisfying the representation invariant (next_to_request = k*c < 512, an outstanding request names next_to_request, any 512 filter bytes, any filled flag) with an arbitrary answer (any cookie, any length 0..=516, any bytes). c34_inv_c: one full request/answer round through the real next_request / to_response / handle_response from an arbitrary state satisfying the transfer invariant (filter[..next]==server[..next], filled => all equal), arbitrary 512 server bytes. c34_multi_c (c=128,256,512): the whole transfer from new(c). c34_server: any request decoded from 0..=520 payload bytes or built from any (len,offset) pair, any 512 filter bytes. c34_member_*: any 512 filter bytes, any ten 12-bit positions, any other filter. Byte-wise post-conditions are asserted at one arbitrary index (= for all indices).",
    outside="the server's filter changing between chunk requests (then the client holds a mix, by design); false-positive rate; ServerId::new's random generation (rejection sampling loop)",
    assumptions=[
        "representation invariant of RemoteBloomFilter as stated in bounds (established by new(), c34_new, and preserved by every step, c34_step_*)",
        "c34_req_new: len+offset <= 65535 (u16 sum in ReferenceIdRequest::new; beyond that: candidate finding c34_req_new_kf_u16_wrap)",
        "server id positions < 4096 (type invariant of U12)",
    ],
    stub_notes=["hooks only build/read RemoteBloomFilter/BloomFilter/ServerId from raw fields (remote_from_raw, remote_raw, bloom_from_bytes, server_id_from_raw, refid_request_from_raw)"],
    harnesses=[H(NP, "c34", "c34_new", "constructor accepts exactly 4,8,...,512; initial state")]
    + [H(NP, "c34", "c34_step_%d" % c, "one answer, chunk size %d: accepted iff outstanding, same cookie, length == c; stored at the offset; cursor/filled/full_filter" % c,
         tier=("quick" if c in _QUICK else "thorough"), timeout=400) for c in _CS]
    + [H(NP, "c34", "c34_inv_%d" % c, "one real request/answer round keeps filter[..next]==server[..next]; filled => equal to the server's 512 bytes (chunk size %d)" % c,
         tier="thorough") for c in _CS]
    + [H(NP, "c34", "c34_multi_%d" % c, "whole transfer from new(%d): complete exactly after 512/c answers and equal to the server's filter" % c, tier="thorough") for c in (128, 256, 512)]
    + [
        H(NP, "c34", "c34_server", "server answer = exactly filter[offset..offset+len] or None", timeout=400),
        H(NP, "c34", "c34_req_new", "ReferenceIdRequest::new validates alignment and range"),
        H(NP, "c34", "c34_req_new_kf_u16_wrap", "EXPECTED TO FAIL: len+offset > 65535 wraps (release) / panics (dev) in ReferenceIdRequest::new", tier="thorough"),
        H(NP, "c34", "c34_member_add", "add_id then contains_id; exactly the ten bits set", tier="thorough"),
        H(NP, "c34", "c34_member_def", "contains_id == all ten bits set; empty filter has no members", tier="thorough"),
        H(NP, "c34", "c34_member_merge", "member survives add(other); add is bytewise OR", tier="thorough"),
        H(NP, "c34", "c34_member_union", "member survives union; union is bytewise OR", tier="thorough"),
    ],
)
