NP = "np_packet_h"
PROP = dict(
    functions=[
        "ntp_proto::packet::NtpPacket::{deserialize<NoCipher>, serialize<NoCipher>} (v3/v4 headers; v4 extension fields)",
        "ntp_proto::packet::extension_fields::{ExtensionFieldData::{deserialize,serialize}, ExtensionField::{decode,serialize,encode_framing,encode_padding,write_zeros,encode_unique_identifier}}",
    ],
    bounds="v3 and v4 48-byte headers (every mode and leap value for v3; v3 client + v4 server in the quick tier), other 47 bytes symbolic; v4 header + one 28-byte unique-id field. Oracle: encode Ok; encoding == normal form of the input computed from the wire format (here: identity), all bytes; decode(encoding) == packet; second encoding identical.",
    outside="NOT VERIFIED IN TIME (harnesses prepared in c24.rs, one image each, 5-15 min of CBMC each on the loaded machine): MACs of 4/5/20/24 bytes, v4 cookie/draft-type/placeholder/multi-field images, v4 fields below the RFC 7822 minimum (padded by the encoder: only encode-Ok/decodes/stable required), all NTPv5 images (odd lengths, reference-id request/response, second draft field, symbolic v5 header); c24_rt_v5_req8 / c24_rt_v5_req16 (aligned reference-id requests, the must-pass side of the known finding) were run again on the less loaded machine: still in symbolic execution after 19 min at 8-10 GB RSS (12 GB cap), stopped. Packets with NTS fields (not accepted without keys); serialize's desired_size padding.",
    assumptions=[
        "c24_rt_v5_req*: reference-id request with payload length not a multiple of 4 excluded (finding; harness c24_rt_v5_kf_refid_req_unaligned expected to fail)",
    ],
    stub_notes=[
        "core::str::from_utf8 / core::slice::ascii::is_ascii -> ASCII-only models, AES-SIV/zeroize stubs, Cargo.toml cbmc-args (see C23)",
    ],
    harnesses=[
        H(NP, "c24", "c24_rt_hdr_q", 'v3 client header, v4 server header: identity', timeout=900),  # measured 62 s CBMC under load
        H(NP, "c24", "c24_rt_hdr_v3", 'v3 header, all modes/leap values: identity', tier="thorough", timeout_thorough=3600),  # measured 826 s CBMC under load
        H(NP, "c24", "c24_rt_v4_uid", 'v4 unique id 28', timeout=900),  # measured 91 s CBMC under load
    ],
    # prepared in the harness crate but NOT registered (did not finish / not re-verified in time / expected to fail):
    # c24_rt_hdr_v4, c24_rt_mac_v3, c24_rt_mac_v4, c24_rt_v4_cookie_mac, c24_rt_v4_draft_type, c24_rt_v4_placeholder, c24_rt_v4_two, c24_rt_v4_two_mac, c24_rt_v4_three, c24_rt_v4_short4, c24_rt_v4_short24, c24_rt_v4_short_first, c24_rt_v5_uid4, c24_rt_v5_cookie5, c24_rt_v5_resp7, c24_rt_v5_other17, c24_rt_v5_req8, c24_rt_v5_req16, c24_rt_v5_padding6, c24_rt_v5_placeholder, c24_rt_v5_draft_only, c24_rt_v5_draft, c24_rt_v5_header, c24_rt_v5_kf_refid_req_unaligned
)
