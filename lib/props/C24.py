NP = "np_packet_h"
PROP = dict(
    functions=[
        "ntp_proto::packet::NtpPacket::{deserialize<NoCipher>, serialize<NoCipher>} (v3/v4/v5 headers, Mac::{deserialize,serialize})",
        "ntp_proto::packet::extension_fields::{ExtensionFieldData::{deserialize,serialize}, ExtensionField::{decode,serialize,encode_framing,encode_padding,write_zeros,encode_unique_identifier,encode_nts_cookie,encode_nts_cookie_placeholder,encode_unknown,encode_draft_identification}}",
        "ntp_proto::packet::v5::extension_fields::{ReferenceIdRequest::{decode,serialize}, ReferenceIdResponse::{decode,serialize}}, NtpHeaderV5::{deserialize,serialize}",
    ],
    bounds="inputs of C23 without keys that can be accepted: v3/v4 header alone (every mode and leap value, other 47 bytes symbolic); v3/v4 header + MAC of 4, 5, 20, 24 bytes; templates (first header byte and v5 timescale/flags concrete, everything else symbolic) with 1-3 fields of concrete type/length: v4 fields 16/20/28/32 (+MAC), v5 fields 4..8,15,16,17,20 before/after the draft field, second draft field with symbolic ASCII content, v5 header fully symbolic with the draft field only. Oracle: encode Ok; encoding == normal form of the input computed from the wire format (padding zeroed, unused request tail zeroed, v5 leap bits); decode(encoding) == packet; second encoding identical (byte-wise claims at an arbitrary index)",
    outside="packets with NTS fields (not accepted without keys); inputs beyond the C23 templates; serialize's desired_size padding (None here)",
    assumptions=[
        "c24_rt_v5_b: reference-id request with payload length not a multiple of 4 excluded (candidate finding, harness c24_rt_v5_kf_refid_req_unaligned)",
        "c24_rt_v4_short: for v4 fields below the RFC 7822 minimum the encoder pads (the property's one normalising round): only encode-Ok / decodes / second encoding identical are required there",
    ],
    stub_notes=[
        "core::str::from_utf8 / core::slice::ascii::is_ascii -> ASCII-only models (see C23)",
        "Cargo.toml [package.metadata.kani]: --max-field-sensitivity-array-size 160, --unwindset memcmp.0:520, drop_glue<[ExtensionField]>.0:6",
    ],
    harnesses=[
        H(NP, "c24", "c24_rt_hdr_q", "v3 client header, v4 server header: identity", timeout=600),
        H(NP, "c24", "c24_rt_hdr_v3", "v3 header, all modes/leap values: identity", tier="thorough"),
        H(NP, "c24", "c24_rt_hdr_v4", "v4 header, all modes/leap values: identity", tier="thorough"),
        H(NP, "c24", "c24_rt_mac_v3", "v3 header + MAC of 4/5/20/24 bytes: identity", tier="thorough"),
        H(NP, "c24", "c24_rt_mac_v4", "v4 header + MAC of 4/5/20/24 bytes: identity", tier="thorough"),
        H(NP, "c24", "c24_rt_v5_draft", "v5 second draft field with symbolic ASCII content", tier="thorough"),
        H(NP, "c24", "c24_rt_v4_one", "v4 one field (unique id / cookie + 24-byte MAC / draft type + 4-byte MAC)", tier="thorough"),
        H(NP, "c24", "c24_rt_v4_placeholder", "v4 cookie placeholder", tier="thorough"),
        H(NP, "c24", "c24_rt_v4_multi", "v4 two and three fields", tier="thorough"),
        H(NP, "c24", "c24_rt_v4_short", "v4 fields below the RFC 7822 minimum: encodable, decodes, stable", tier="thorough"),
        H(NP, "c24", "c24_rt_v5_a", "v5 draft + unique id 4 / cookie 5 / reference-id response 7 / unknown 17", tier="thorough"),
        H(NP, "c24", "c24_rt_v5_b", "v5 draft + reference-id request 8, 16 / padding field 6", tier="thorough"),
        H(NP, "c24", "c24_rt_v5_placeholder", "v5 placeholder of odd length", tier="thorough"),
        H(NP, "c24", "c24_rt_v5_header", "v5 header fully symbolic + draft field: leap/flag normalisation", tier="thorough"),
        H(NP, "c24", "c24_rt_v5_kf_refid_req_unaligned", "EXPECTED TO FAIL: v5 reference-id request with 2-byte payload: serialize panics", tier="thorough"),
    ],
)
