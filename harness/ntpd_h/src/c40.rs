//! C40 GPSd samples are validated before use.
//!
//! Oracle (property text + the gpsd `sock_sample` layout the code comments cite: 40 bytes,
//! offset f64 at 16..24, pulse i32 at 24..28, leap i32 at 28..32, magic i32 at 36..40, all
//! little endian, magic = 0x534f434b "SOCK"): a datagram becomes a sample only if the received
//! size is exactly 40, the magic matches, pulse is 0 and the offset is finite.
use crate::stubs;
use ntp_proto::verif::time_types as th;
use ntp_proto::{NtpDuration, NtpTimestamp};
use ntpd::verif::daemon::sock_source as h;

fn le_i32(b: &[u8; 40], at: usize) -> i32 {
    (b[at] as u32 | (b[at + 1] as u32) << 8 | (b[at + 2] as u32) << 16 | (b[at + 3] as u32) << 24) as i32
}
fn le_u64(b: &[u8; 40], at: usize) -> u64 {
    let lo = b[at] as u64 | (b[at + 1] as u64) << 8 | (b[at + 2] as u64) << 16 | (b[at + 3] as u64) << 24;
    let hi = b[at + 4] as u64 | (b[at + 5] as u64) << 8 | (b[at + 6] as u64) << 16 | (b[at + 7] as u64) << 24;
    lo | hi << 32
}
/// IEEE-754 binary64: exponent field all ones = infinity or NaN.
fn bits_nonfinite(bits: u64) -> bool {
    (bits >> 52) & 0x7ff == 0x7ff
}

fn check_sample(size: usize, buf: [u8; 40]) {
    let magic_ok = buf[36] == 0x4b && buf[37] == 0x43 && buf[38] == 0x4f && buf[39] == 0x53; // "KCOS" = LE 0x534f434b
    let pulse_zero = buf[24] == 0 && buf[25] == 0 && buf[26] == 0 && buf[27] == 0;
    let off_bits = le_u64(&buf, 16);
    match h::deserialize_sample_raw(Ok(size), buf) {
        Ok((offset, pulse, leap, magic)) => {
            assert!(size == 40, "accepted a datagram of the wrong size");
            assert!(magic_ok && magic == 0x534f434b, "accepted a datagram with the wrong magic");
            assert!(pulse_zero && pulse == 0, "accepted a datagram with the pulse flag set");
            assert!(offset.to_bits() == off_bits, "offset is the f64 at bytes 16..24");
            assert!(leap == le_i32(&buf, 28), "leap is the i32 at bytes 28..32");
            assert!(!bits_nonfinite(off_bits) && offset.is_finite(), "accepted a non-finite offset");
        }
        Err(code) => {
            // completeness + error classification (size first, then magic, pulse, offset)
            assert!(size != 40 || !magic_ok || !pulse_zero || bits_nonfinite(off_bits), "rejected a valid sample");
            if size != 40 {
                assert!(code == 2);
            } else if !magic_ok {
                assert!(code == 3);
            } else if !pulse_zero {
                assert!(code == 4);
            } else {
                assert!(code == 5, "non-finite offset reported as such");
            }
        }
    }
}

/// Every size and every 40-byte datagram (finite and non-finite offsets alike).
#[kani::proof]
#[kani::unwind(10)]
fn c40_sample() {
    let size: usize = kani::any();
    let buf: [u8; 40] = kani::any();
    let r = h::deserialize_sample_raw(Ok(size), buf);
    check_sample(size, buf);
    kani::cover!(matches!(r, Ok((o, _, l, _)) if o < 0.0 && l == 1), "accepted a negative offset with leap = 1");
    kani::cover!(r == Err(2) && size == 39, "rejected size 39");
    kani::cover!(r == Err(2) && size == 41, "rejected size 41");
    kani::cover!(r == Err(3), "rejected wrong magic");
    kani::cover!(r == Err(4), "rejected pulse");
    kani::cover!(r == Err(5), "rejected non-finite offset");
}

/// Formerly the known-finding twin (fixed by /repo 890ad01): an otherwise valid datagram whose
/// offset is NaN or +-inf must be rejected.
#[kani::proof]
#[kani::unwind(10)]
fn c40_sample_nonfinite_offset() {
    let size: usize = kani::any();
    let buf: [u8; 40] = kani::any();
    kani::assume(bits_nonfinite(le_u64(&buf, 16)));
    let r = h::deserialize_sample_raw(Ok(size), buf);
    assert!(r.is_err(), "a datagram with a non-finite offset was accepted");
    check_sample(size, buf);
    kani::cover!(r == Err(5) && le_u64(&buf, 16) == 0x7ff0_0000_0000_0000, "+inf rejected");
    kani::cover!(r == Err(5) && le_u64(&buf, 16) == u64::MAX, "NaN (all ones) rejected");
}

/// A failed receive is reported as an error, never as a sample.
#[kani::proof]
#[kani::unwind(10)]
fn c40_recv_error() {
    let buf: [u8; 40] = kani::any();
    let r = h::deserialize_sample_raw(Err(std::io::Error::from(std::io::ErrorKind::ConnectionReset)), buf);
    assert!(r == Err(0), "receive error must be rejected as IO error");
}

/// The conversion that follows acceptance in `SockSourceTask::run`:
/// `sender_ts = time - NtpDuration::from_seconds(sample.offset)` for every finite offset and
/// every clock reading: no panic, and the measured offset `receiver_ts - sender_ts` is exactly the
/// converted duration with the sign of the sample offset.
#[kani::proof]
#[kani::unwind(4)]
fn c40_conv() {
    let bits: u64 = kani::any();
    let now: u64 = kani::any();
    kani::assume(!bits_nonfinite(bits));
    let offset = f64::from_bits(bits);
    let time = th::ts_from_raw(now);
    let d = NtpDuration::from_seconds(offset);
    let sender_ts = time - d;
    let measured = time - sender_ts;
    let raw = th::dur_raw(d);
    assert!(th::dur_raw(measured) == raw, "receiver_ts - sender_ts reproduces the converted offset");
    assert!(th::ts_raw(sender_ts) == now.wrapping_sub(raw as u64), "sender timestamp = now - offset (mod 2^64)");
    if offset >= 1.0 {
        assert!(raw >= 1 << 32, "positive offsets of at least a second stay positive");
    }
    if offset <= -1.0 {
        assert!(raw <= -(1 << 32), "negative offsets of at least a second stay negative");
    }
    if offset == 0.0 {
        assert!(raw == 0);
    }
    kani::cover!(raw == i64::MAX, "huge offset saturates");
    kani::cover!(raw == i64::MIN, "huge negative offset saturates");
    kani::cover!(raw > 0 && raw < (1 << 32), "sub-second positive offset");
}
