//! Safe-Rust verification hooks for this module (accessors/wrappers only; no logic).
#![allow(unused_imports, dead_code)]
use super::*;
pub use super::extension_fields::verif_hooks as extension_fields;
pub use super::server_reference_id::verif_hooks as server_reference_id;
