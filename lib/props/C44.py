ST = "statime_h"
PROP = dict(
    functions=[
        "statime_csptp::source::add_correction (private, via hook wrapper)",
        "statime_csptp::source::convert_to_ntp (private, via hook wrapper)",
        "statime_csptp::source::CsptpSource::<RefCell<InternalState>, NullCtl>::collect_response (private async fn, via hook wrapper; polled with Waker::noop over a scripted in-memory ClientSocket)",
        "statime_csptp::messages::CsptpMessage::deserialize, CsptpResponseTlv::try_from, statime_wire::Message::deserialize, TlvSet iteration (reached from collect_response)",
    ],
    bounds="add_correction: every 48-bit seconds / nanos < 1e9 timestamp, corrections |c>>16| < 2^32 ns (quick) and < 2^40 ns = 18 min (thorough, c44_corr_40); convert_to_ntp: every valid wire timestamp; "
           "collect_response: 2 (quick) / 3 (thorough) datagrams per request, each one of the templates {Sync + CSPTP response TLV (66 bytes), Follow_Up (44 bytes), Sync + CSPTP request TLV (52 bytes)} with concrete messageType/messageLength/TLV type+length fields and every other byte symbolic "
           "(domain, sequence id, flags incl. two-step, sdoId low byte, version byte, correction fields, timestamps), per datagram a symbolic receive timestamp (present/absent) and a symbolic socket error; symbolic request domain, sequence id and send timestamp",
    outside="CsptpSource::run (poll timer, rng, socket creation, timeout race, the two handle_measurement calls and the status update `steps_removed + 1`, which overflows in the dev profile for steps_removed = 65535); unstructured (non-template) datagrams reach only Message::deserialize, which C41 covers; "
            "more than 3 datagrams per request; timestamps whose nanoseconds field is exactly 10^9 (the wire parser accepts them, Timestamp::new does not: see report)",
    assumptions=[
        "wire timestamps handed to add_correction/convert_to_ntp have nanos < 1e9 (Timestamp::new invariant)",
        "c44_corr: corrected time lies in [0, 2^48 s) (the complement is the finding harness c44_corr_kf_seconds_out_of_range); |correction| < 2^32 ns in the quick harness",
        "template datagrams: nanoseconds fields != 10^9 exactly",
        "the scripted socket delivers each datagram immediately and stays pending when the script is exhausted (the real caller races collect_response against a timeout)",
    ],
    stub_notes=["no stubs: harnesses are plain #[kani::proof]; ClientSocket is implemented by the harness (scripted in-memory socket), SourceController by a no-op"],
    harnesses=[
        H(ST, "c44", "c44_corr", "add_correction = exact integer arithmetic and does not panic when the corrected time is representable (|correction| < 2^32 ns)"),
        H(ST, "c44", "c44_to_ntp", "convert_to_ntp: epoch shift mod 2^32 and exact binary fraction, no panic"),
        H(ST, "c44", "c44_collect", "collect_response over 2 template datagrams equals the reference state machine: measurement only from matching domain+sequence id, fields taken from the right datagrams, nothing read after completion"),
        H(ST, "c44", "c44_corr_40", "add_correction for |correction| < 2^40 ns (18 min); the full 2^47 range is out of reach, see outside", tier="thorough", timeout_thorough=1800),
        H(ST, "c44", "c44_collect_3", "collect_response over 3 template datagrams (duplicates, follow-up before sync, interleaved foreign answers)", tier="thorough", timeout_thorough=1800),
        H(ST, "c44", "c44_corr_kf_seconds_out_of_range", "FINDING (expected to fail until fixed): corrected seconds outside [0, 2^48) panic in add_correction"),
    ],
)
