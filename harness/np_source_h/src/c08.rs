//! Harnesses for property C08 (see /verif/properties.jsonl): a plain source uses a packet for
//! synchronisation only if it is a fresh answer to the pending request, and at most once.
use crate::common::*;
use crate::stubs;
use ntp_proto::*;

/// One `handle_incoming` from an arbitrary state with an arbitrary packet; oracle on raw bytes.
#[cfg(kani)]
fn accept_body(src: &mut Src, pre: &Pre, pkt: &[u8], send: u64, recv: u64) {
    let before = sh::state(src);
    let acts = collect(src.handle_incoming(pkt, th::ts_from_raw(send), th::ts_from_raw(recv)));
    let after_t = tokio::time::Instant::now();
    let post = sh::state(src);
    let ctl = sh::controller(src);
    let n = ctl.n_meas;

    let v = version_bits(pkt);
    let stratum = stratum_byte(pkt);

    // handle_incoming never asks for anything (plain source): no send / reset / demobilise
    assert!(acts.n == 0, "C08: a received packet produces no actions on a plain source");
    assert!(n == 0 || n == 2, "C08: measurements come as exactly one outgoing+incoming pair");

    if n != 0 {
        assert!(ctl.kinds[0] == 1 && ctl.kinds[1] == 2, "C08: pair is (system->source, source->system)");
        assert!(pre.has_pending, "C08: accepted without a pending request");
        assert!(pre.deadline >= pre.base, "C08: accepted after the poll window closed");
        assert!(origin_field(pkt) == pre.pending_id, "C08: accepted with a foreign origin timestamp / client cookie");
        assert!(version_expected(pre.pv, v), "C08: accepted an unexpected protocol version");
        assert!(mode_bits(pkt) == 4, "C08: accepted a packet that is not in server mode");
        assert!(stratum != 0, "C08: a KISS packet was used as a measurement");
        assert!(stratum <= 16, "C08: accepted stratum above 16");
        assert!(!post.pending, "C08: pending request not cleared after acceptance (replayable)");
        // the measurement is taken from this packet and these local timestamps
        assert!(ctl.sender_ts[0] == send && ctl.receiver_ts[0] == be64(pkt, 32), "C08: outgoing = (send time, packet receive ts)");
        assert!(ctl.sender_ts[1] == be64(pkt, 40) && ctl.receiver_ts[1] == recv, "C08: incoming = (packet transmit ts, recv time)");
    }

    // a packet that cannot be an answer to the pending request has no effect whatsoever
    // (in particular KISS codes are not looked at before the request matching)
    if !may_match(pre, pkt) {
        assert!(n == 0, "C08: unsolicited packet measured");
        assert!(post == before, "C08: unsolicited / stale / forged packet changed the source state");
        assert!(pending_unchanged(src, pre), "C08: unsolicited packet touched the pending request");
    }
    // anything that is not accepted leaves the pending request as it was
    if n == 0 {
        assert!(pending_unchanged(src, pre), "C08: rejected packet touched the pending request");
        assert!(post.reach == before.reach, "C08: rejected packet changed reachability");
    }

    // acceptance is reachable, and so are the individual reasons for rejection
    kani::cover!(n == 2, "a fresh matching answer is accepted");
    kani::cover!(n == 2 && stratum == 16, "stratum 16 accepted");
    kani::cover!(n == 2 && pre.deadline == pre.base, "accepted exactly at the deadline reading");
    kani::cover!(n == 0 && must_match(pre, pkt, after_t) && stratum == 0, "matching KISS packet not measured");
    kani::cover!(n == 0 && must_match(pre, pkt, after_t) && stratum == 17, "matching packet with stratum 17 rejected");
    kani::cover!(n == 0 && must_match(pre, pkt, after_t) && stratum == 1 && mode_bits(pkt) != 4, "matching packet in a non-server mode rejected");
    kani::cover!(n == 0 && pre.has_pending && origin_field(pkt) == pre.pending_id && pre.deadline < pre.base, "late answer rejected");
    kani::cover!(n == 0 && pre.has_pending && pre.deadline >= after_t && origin_field(pkt) != pre.pending_id && decodable(pkt), "foreign origin rejected");
    kani::cover!(n == 0 && !pre.has_pending && decodable(pkt), "no request pending: rejected");
}

sharness! {
    #[kani::unwind(12)]
    fn c08_accept() {
        stubs::symbolic_clock();
        let (mut src, pre) = any_source(PvClass::Any);
        let mut p = any_pkt4();
        let b0: u8 = kani::any();
        let send: u64 = kani::any();
        let recv: u64 = kani::any();
        let mut run = |v: u8| {
            p.set_b0(v);
            accept_body(&mut src, &pre, p.bytes(), send, recv);
        };
        for_b0!(quick, b0, run);
        kani::cover!(sh::controller(&src).n_meas == 2 && b0 == 0x1C, "v3 answer accepted by a V4 association");
        kani::cover!(sh::controller(&src).n_meas == 2 && matches!(pre.pv, ProtocolVersion::V4UpgradingToV5 { .. }), "answer accepted while upgrading");
    }
}

sharness! {
    #[kani::unwind(12)]
    fn c08_accept_full() {
        stubs::symbolic_clock();
        let (mut src, pre) = any_source(PvClass::Any);
        let mut p = any_pkt4();
        let b0: u8 = kani::any();
        let send: u64 = kani::any();
        let recv: u64 = kani::any();
        let mut run = |v: u8| {
            p.set_b0(v);
            accept_body(&mut src, &pre, p.bytes(), send, recv);
        };
        for_b0!(full, b0, run);
    }
}

sharness! {
    #[kani::unwind(30)]
    fn c08_accept_v5() {
        stubs::symbolic_clock();
        let (mut src, pre) = any_source(PvClass::Any);
        let mut p = any_pkt5();
        let sel: u8 = kani::any();
        let send: u64 = kani::any();
        let recv: u64 = kani::any();
        let mut run = |b0: u8, b12: u8, b14: u8, b15: u8, last: u8| {
            p.set_hdr(b0, b12, b14, b15, last);
            accept_body(&mut src, &pre, p.bytes(), send, recv);
        };
        for_v5hdr!(quick, sel, run);
        kani::cover!(sh::controller(&src).n_meas == 2 && matches!(pre.pv, ProtocolVersion::UpgradedToV5), "v5 answer accepted after upgrade");
        kani::cover!(sh::controller(&src).n_meas == 2 && matches!(pre.pv, ProtocolVersion::V5), "v5 answer accepted by a V5 association");
    }
}

sharness! {
    #[kani::unwind(30)]
    fn c08_accept_v5_full() {
        stubs::symbolic_clock();
        let (mut src, pre) = any_source(PvClass::Any);
        let mut p = any_pkt5();
        let sel: u8 = kani::any();
        let send: u64 = kani::any();
        let recv: u64 = kani::any();
        let mut run = |b0: u8, b12: u8, b14: u8, b15: u8, last: u8| {
            p.set_hdr(b0, b12, b14, b15, last);
            accept_body(&mut src, &pre, p.bytes(), send, recv);
        };
        for_v5hdr!(all, sel, run);
    }
}

/// Replay / duplicates: after a (concrete) answer has been accepted, a second arbitrary packet -
/// in particular the same packet again, or another answer to the same request - is not measured.
/// (Two fully symbolic consecutive calls do not finish symbolic execution: > 11 min, 5 GB. The
/// general statement follows by induction from `c08_accept`, which starts from an arbitrary
/// state: acceptance needs a pending request and clears it.)
#[cfg(kani)]
fn replay_second(src: &mut Src, id: u64, first: &[u8], p2: &[u8], t: [u64; 2]) {
    let a2 = collect(src.handle_incoming(p2, th::ts_from_raw(t[0]), th::ts_from_raw(t[1])));
    let n2 = sh::controller(src).n_meas;
    assert!(a2.n == 0, "C08: no actions");
    assert!(n2 == 2, "C08: a second packet after acceptance (replay/duplicate) was measured");
    assert!(!sh::state(src).pending, "C08: identifier must be one-shot");
    let same = p2[0] == first[0]
        && be64(p2, 0) == be64(first, 0)
        && be64(p2, 8) == be64(first, 8)
        && be64(p2, 16) == be64(first, 16)
        && be64(p2, 24) == be64(first, 24)
        && be64(p2, 32) == be64(first, 32)
        && be64(p2, 40) == be64(first, 40);
    kani::cover!(same, "accepted packet replayed verbatim and ignored");
    kani::cover!(!same && origin_field(p2) == id && mode_bits(p2) == 4 && stratum_byte(p2) == 1, "second answer to the same request ignored");
}

sharness! {
    #[kani::unwind(12)]
    fn c08_replay() {
        stubs::symbolic_clock();
        let mut p2 = any_pkt4();
        let b0: u8 = kani::any();
        let t: [u64; 2] = kani::any();
        let upgrading: bool = kani::any();
        let id: u64 = 0x1122_3344_5566_7788;
        let pv = if upgrading { ProtocolVersion::V4UpgradingToV5 { tries_left: 8 } } else { ProtocolVersion::V4 };
        let mut src = mk_source(pv, th::poll_from_raw(4));
        let base = tokio::time::Instant::now();
        sh::set_pending(&mut src, Some((th::ts_from_raw(id), None, base + std::time::Duration::from_secs(5))));
        // first: a concrete, valid v4 server answer (stratum 2) to the pending request
        let mut first = Pkt4 { b: [0; 48], slack: [0; 8] };
        first.set_b0(0x24);
        first.b[1] = 2;
        put_be64(&mut first.b, 24, id);
        let a1 = collect(src.handle_incoming(first.bytes(), th::ts_from_raw(1), th::ts_from_raw(2)));
        assert!(a1.n == 0 && sh::controller(&src).n_meas == 2, "C08: the genuine answer is accepted once");
        let mut run = |v: u8| {
            p2.set_b0(v);
            replay_second(&mut src, id, first.bytes(), p2.bytes(), t);
        };
        for_b0!(quick, b0, run);
    }
}

/// The request a timer sends is the one the source then waits for, for exactly the poll window.
#[cfg(kani)]
fn request_check(src: &Src, pre: &Pre, acts: &Acts, t0: tokio::time::Instant, t1: tokio::time::Instant) {
    let window = std::time::Duration::from_secs(sh::POLL_WINDOW_SECS);
    assert!(sh::POLL_WINDOW_SECS >= 1 && sh::POLL_WINDOW_SECS <= 8, "C08: poll window shorter than the shortest configured poll interval (2^4 s)");
    if let Some(p) = &acts.sent {
        assert!(p.len() >= 48, "C08: request has a full header");
        match pending_of(src) {
            None => assert!(false, "C08: a request was sent but none is pending"),
            Some((id, has_uid, deadline)) => {
                // v4: our transmit timestamp (octets 40..48) must come back as origin;
                // v5: the client cookie (octets 24..32)
                let sent_id = if version_bits(p) == 5 { be64(p, 24) } else { be64(p, 40) };
                assert!(id == sent_id, "C08: the pending identifier is not the one in the request just sent");
                assert!(!has_uid, "C08: plain source has no unique identifier");
                assert!(deadline >= t0 + window && deadline <= t1 + window, "C08: deadline = send time + poll window");
            }
        }
        kani::cover!((version_bits(p) == 5 && be64(p, 24) == 0x0123_4567_89AB_CDEF) || (version_bits(p) == 4 && be64(p, 40) == 0x0123_4567_89AB_CDEF), "the request identifier is random");
    } else {
        assert!(pending_unchanged(src, pre), "C08: nothing sent, pending request untouched");
    }
    kani::cover!(acts.sent.is_none(), "reset/demobilise path");
}

sharness! {
    #[kani::unwind(30)]
    fn c08_request() {
        stubs::symbolic_clock();
        stubs::symbolic_rng();
        let (mut src, pre) = any_source(PvClass::V4Family);
        let t0 = tokio::time::Instant::now();
        let acts = timer_step!(v4fam, src, pre);
        let t1 = tokio::time::Instant::now();
        request_check(&src, &pre, &acts, t0, t1);
    }
}

sharness! {
    #[kani::unwind(30)]
    fn c08_request_v5() {
        stubs::symbolic_clock();
        stubs::symbolic_rng();
        let (mut src, pre) = any_source(PvClass::V5Family);
        let t0 = tokio::time::Instant::now();
        let acts = timer_step!(v5fam, src, pre);
        let t1 = tokio::time::Instant::now();
        request_check(&src, &pre, &acts, t0, t1);
    }
}
