//! Harnesses for property C08 (see /verif/properties.jsonl).
use crate::stubs;
