//! Safe-Rust verification hooks for this module (accessors/wrappers only; no logic).
#![allow(unused_imports, dead_code)]
use super::*;
pub use super::messages::verif_hooks as messages;
pub use super::record::verif_hooks as record;
