//! Safe-Rust verification hooks for this module (accessors/wrappers only; no logic).
#![allow(missing_docs, unused_imports, dead_code)]
use super::*;

pub fn ts_from_raw<A>(v: u128) -> Timestamp<A> {
    Timestamp(v, PhantomData)
}
pub fn ts_raw<A>(t: Timestamp<A>) -> u128 {
    t.0
}
pub fn dur_from_raw(v: i128) -> Duration {
    Duration(v)
}
pub fn dur_raw(d: Duration) -> i128 {
    d.0
}
