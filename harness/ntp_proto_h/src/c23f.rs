//! C23 (function level): the framing of the NTS encrypted extension field body is total and exact.
//! `RawEncryptedField::from_message_bytes` is the first thing every decoder context (no keys, client
//! keys, server cookie keys) runs on an 0x0404 field, before any key is looked up.
use ntp_proto::verif::packet::extension_fields as eh;

#[kani::proof]
#[kani::unwind(4)]
fn c23_encrypted_field_frame() {
    // body = nonce length (u16) | ciphertext length (u16) | up to 28 more bytes; all symbolic
    let body: [u8; 32] = kani::any();
    let len: usize = kani::any();
    kani::assume(len <= 32);
    // backing array longer than the slice (see BUILDER_GUIDE performance tips)
    let mut backing = [0u8; 40];
    backing[..32].copy_from_slice(&body);
    let msg = &backing[..len];
    let r = eh::encrypted_field_frame(msg);
    if let Some((n_off, n_len, c_off, c_len)) = r {
        let nl = u16::from_be_bytes([body[0], body[1]]) as usize;
        let cl = u16::from_be_bytes([body[2], body[3]]) as usize;
        assert!(len >= 4, "accepted field has both length words");
        assert!(n_off == 4 && n_len == nl, "nonce is exactly the announced bytes after the length words");
        let padded = (nl + 3) / 4 * 4;
        assert!(c_off == 4 + padded && c_len == cl, "ciphertext starts after the padded nonce and has the announced length");
        assert!(c_off + c_len <= len && n_off + n_len <= len, "both lie inside the field body");
        kani::cover!(nl == 16 && cl == 8, "ordinary field accepted");
        kani::cover!(nl == 1, "odd nonce length accepted (padding applies)");
    } else {
        kani::cover!(len >= 4 && u16::from_be_bytes([body[0], body[1]]) >= 0xFFFD, "huge nonce length rejected");
    }
}
