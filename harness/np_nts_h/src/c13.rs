//! Harnesses for property C13 (see /verif/properties.jsonl):
//! NTS cookies are used once, oldest first, at most eight (the newest) are kept, and each request
//! asks for exactly as many new cookies as are missing (limited only by packet size).
use crate::common::*;
use crate::stubs;
use ntp_proto::verif::cookiestash::StashH;
use ntp_proto::verif::source as sh;
use ntp_proto::*;

// ------------------------------------------------------------------------------------------
// c13_stash: the ring buffer against a FIFO model.
//
// Every cookie ever stored gets a unique 1-byte serial number (its content). The reference model
// of "FIFO that keeps the newest 8" is then just a window [head, tail) of serial numbers:
//   store: tail += 1; if the window holds more than 8, the oldest is dropped (head += 1)
//   get  : returns serial `head` and head += 1, or nothing if the window is empty.
// "Each cookie at most once" and "oldest first" follow from get returning exactly `head`, which
// strictly increases.
fn c13_stash_seq_body<const OPS: usize>() {
    let read: usize = kani::any();
    let valid: usize = kani::any();
    kani::assume(read < MAX_COOKIES && valid <= MAX_COOKIES);
    let ops: [bool; OPS] = kani::any();

    // arbitrary valid raw state: `valid` cookies with serials 0..valid starting at slot `read`
    let mut cookies: [Vec<u8>; MAX_COOKIES] = Default::default();
    let mut i = 0;
    while i < MAX_COOKIES {
        if i < valid {
            cookies[(read + i) % MAX_COOKIES] = vec![i as u8];
        }
        i += 1;
    }
    let mut stash = StashH::from_raw(cookies, read, valid);

    let mut head: usize = 0;
    let mut tail: usize = valid;
    let mut n_get_some = 0usize;
    let mut n_dropped = 0usize;

    let mut k = 0;
    while k < OPS {
        if ops[k] {
            // store a fresh cookie
            stash.store(vec![tail as u8]);
            tail += 1;
            if tail - head > MAX_COOKIES {
                head += 1;
                n_dropped += 1;
            }
        } else {
            let got = stash.get();
            if head == tail {
                assert!(got.is_none(), "get on an empty stash returns nothing");
            } else {
                match got {
                    Some(c) => {
                        assert!(c.len() == 1 && c[0] as usize == head, "get returns the oldest cookie that was not yet handed out");
                        n_get_some += 1;
                    }
                    None => assert!(false, "get on a non-empty stash returns a cookie"),
                }
                head += 1;
            }
        }
        assert!(stash.len() == tail - head, "len agrees with the model");
        assert!(stash.gap() as usize == MAX_COOKIES - (tail - head), "gap = number of missing cookies");
        k += 1;
    }
    kani::cover!(n_dropped >= 1 && n_get_some >= 1, "overflow drops the oldest, then a get");
    kani::cover!(n_get_some == OPS, "only gets");
    kani::cover!(valid == 0 && n_get_some >= 1, "store then get from empty");
}

#[kani::proof]
#[kani::unwind(10)]
fn c13_stash_seq4() {
    c13_stash_seq_body::<4>();
}

#[kani::proof]
#[kani::unwind(10)]
fn c13_stash_seq6() {
    c13_stash_seq_body::<6>();
}

// c13_stash_step: ONE operation from an arbitrary valid raw state with arbitrary cookie contents,
// checked through the full abstraction function (ring window == model queue, position by position).
// Together with "the empty stash is the empty queue" this is an inductive proof for histories of
// any length: the queue model never hands out a position twice and always hands out the front.
#[kani::proof]
#[kani::unwind(10)]
fn c13_stash_step() {
    let read: usize = kani::any();
    let valid: usize = kani::any();
    kani::assume(read < MAX_COOKIES && valid <= MAX_COOKIES);
    let tags: [u8; MAX_COOKIES] = kani::any();
    let op_store: bool = kani::any();
    let new_tag: u8 = kani::any();
    let stale: u8 = kani::any();

    let mut cookies: [Vec<u8>; MAX_COOKIES] = Default::default();
    let mut i = 0;
    while i < MAX_COOKIES {
        // free slots hold an arbitrary stale value or nothing (never observable)
        cookies[(read + i) % MAX_COOKIES] = if i < valid { vec![tags[i]] } else if stale & 1 == 1 { vec![stale, stale] } else { Vec::new() };
        i += 1;
    }
    let mut stash = StashH::from_raw(cookies, read, valid);

    // model queue: m[0..mlen], oldest first
    let mut m = [0u8; MAX_COOKIES + 1];
    let mut mlen = valid;
    let mut i = 0;
    while i < MAX_COOKIES {
        m[i] = tags[i];
        i += 1;
    }

    if op_store {
        stash.store(vec![new_tag]);
        m[mlen] = new_tag;
        mlen += 1;
        if mlen > MAX_COOKIES {
            // keep the newest eight
            let mut i = 0;
            while i < MAX_COOKIES {
                m[i] = m[i + 1];
                i += 1;
            }
            mlen -= 1;
        }
    } else {
        let got = stash.get();
        if mlen == 0 {
            assert!(got.is_none(), "get on an empty stash returns nothing");
        } else {
            match got {
                Some(c) => assert!(c.len() == 1 && c[0] == m[0], "get returns the oldest cookie"),
                None => assert!(false, "get on a non-empty stash returns a cookie"),
            }
            let mut i = 0;
            while i < MAX_COOKIES {
                m[i] = m[i + 1];
                i += 1;
            }
            mlen -= 1;
        }
    }
    // abstraction function after the step
    assert!(stash.read() < MAX_COOKIES && stash.valid() <= MAX_COOKIES, "representation invariant is preserved");
    assert!(stash.len() == mlen && stash.valid() == mlen, "len agrees with the model");
    assert!(mlen <= MAX_COOKIES, "at most eight cookies are kept");
    assert!(stash.gap() as usize == MAX_COOKIES - mlen, "gap = number of missing cookies");
    assert!(stash.is_empty() == (mlen == 0), "is_empty agrees with the model");
    let mut i = 0;
    while i < MAX_COOKIES {
        if i < mlen {
            let c = stash.slot((stash.read() + i) % MAX_COOKIES);
            assert!(c.len() == 1 && c[0] == m[i], "ring window = model queue (same cookies, same order)");
        }
        i += 1;
    }
    kani::cover!(op_store && valid == MAX_COOKIES && read == 5, "store into a full stash drops the oldest");
    kani::cover!(!op_store && valid == 3 && read == 7, "get with wrap-around");
    kani::cover!(!op_store && valid == 0, "get from empty");
}

#[kani::proof]
fn c13_stash_init() {
    let stash = StashH::new();
    assert!(stash.len() == 0 && stash.gap() as usize == MAX_COOKIES && stash.is_empty(), "a new stash is the empty queue");
    assert!(stash.read() < MAX_COOKIES && stash.valid() == 0);
}

// ------------------------------------------------------------------------------------------
// c13_poll_*: what an NTS poll does with the stash.
//
// Oracle (from the property text, independent of the code):
//   * the request carries exactly one NTS cookie field whose content is the oldest cookie of the
//     stash, and the stash afterwards no longer holds that cookie (it holds the former 2nd..n-th
//     cookies in the same order);
//   * it carries p placeholder fields, each as long as the cookie, where
//     1 + p = number of cookies the server is asked for = min(missing, fit) with
//     missing = 8 - (cookies left after taking one) and fit = floor(724 / max(L,1)) (the packet-size
//     limit the implementation documents: 1024-byte buffer minus 300 bytes of margin);
//   * cookie and placeholders are in the authenticated part;
//   * if that number is 0 (only when L > 724) the source resets instead.
//
// Decided at the two function boundaries of the real code (the whole chain in one query does not
// fit: see common.rs):
//   c13_poll_timer_*  : real `NtpSource::handle_timer`, every stash fill and cookie length 0..=64:
//                       which cookie and which count it hands to `NtpPacket::nts_poll_message{,_v5}`
//                       (recorded), what happens to the stash, what the pending identifier is;
//   c13_poll_message_*: real `NtpPacket::nts_poll_message{,_v5}` for every cookie (<= 32 bytes,
//                       symbolic content) and every count 1..=8: the fields of the packet it builds.

struct PollCase {
    valid: usize,
    l: usize,
    content: [u8; 64],
    jc: usize,
    jp: usize,
    desired: i8,
    reach: u8,
    tries: usize,
}

fn any_poll_case() -> PollCase {
    let c = PollCase {
        valid: kani::any(),
        l: kani::any(),
        content: kani::any(),
        jc: kani::any(),
        jp: kani::any(),
        desired: kani::any(),
        reach: kani::any(),
        tries: kani::any(),
    };
    kani::assume(c.valid <= MAX_COOKIES);
    kani::assume(c.l <= 64);
    kani::assume(c.jc < 64);
    kani::assume(c.desired >= 4 && c.desired <= 10);
    kani::assume(c.tries <= 4);
    c
}

fn c13_poll_timer_body(v5: bool) {
    stubs::symbolic_clock();
    sym_rng();
    let c = any_poll_case();
    unsafe {
        PM_JC = c.jc;
    }
    let mut oldest = c.content.to_vec();
    oldest.truncate(c.l);
    let nts = sh::nts_data_with_stash(stash0(c.valid, oldest), c2s(), s2c());
    let version = if v5 { ProtocolVersion::V5 } else { ProtocolVersion::V4 };
    let mut src = new_source(version, SourceConfig::default(), poll(c.desired), Some(nts));
    sh::set_reach(&mut src, c.reach);
    sh::set_tries(&mut src, c.tries);

    let (acts, n) = collect_actions(src.handle_timer());
    check_poll_timer(&mut src, &acts, n, &c, v5);
    // the source is not dropped (dropping the 8-slot stash is a loop of 8 = a larger unwind bound)
    core::mem::forget(src);
    core::mem::forget(acts);
}

fn check_poll_timer(src: &mut NtpSource<RecCtl>, acts: &[Option<NtpSourceAction>; 3], n: usize, c: &PollCase, v5: bool) {
    if c.reach == 0 && c.tries >= 3 {
        assert!(n == 1 && matches!(acts[0], Some(NtpSourceAction::Reset)), "unreachable source resets");
        assert!(sh::state(src).cookies == Some(c.valid), "no cookie is consumed when no request is sent");
        assert!(unsafe { PM_CALLS == 0 });
        return;
    }
    if c.valid == 0 {
        assert!(n == 1 && matches!(acts[0], Some(NtpSourceAction::Reset)), "no cookie left: reset, nothing sent");
        assert!(unsafe { PM_CALLS == 0 });
        return;
    }
    assert!(n == 2, "send + timer");
    assert!(matches!(acts[0], Some(NtpSourceAction::Send(_))), "first action is Send");
    assert!(matches!(acts[1], Some(NtpSourceAction::SetTimer(_))), "second action is SetTimer");

    // stash afterwards: one fewer, former 2nd.. cookies in order, the used cookie is gone
    let left = c.valid - 1;
    assert!(sh::state(src).cookies == Some(left), "exactly one cookie was consumed");
    {
        let nd = sh::nts_mut(src).unwrap();
        let i: usize = c.jp % MAX_COOKIES; // universally quantified position
        if i < left {
            let ck = sh::nts_peek_cookie(nd, i).unwrap();
            assert!(ck.len() == 2 && ck[0] == 0xC0 && ck[1] as usize == i + 1, "remaining cookies keep their order; the used one is gone");
        }
        assert!(sh::nts_peek_cookie(nd, left).is_none());
    }
    let missing = MAX_COOKIES - left;
    let fit = 724 / core::cmp::max(c.l, 1);
    let asked = core::cmp::min(missing, fit);
    unsafe {
        assert!(PM_CALLS == 1 && PM_V5 == v5, "one request is built, for the source's protocol version");
        assert!(PM_COOKIE_LEN == c.l, "the cookie is handed over whole");
        if c.jc < c.l {
            assert!(PM_COOKIE_BYTE == c.content[c.jc], "cookie sent = oldest cookie of the stash (every byte)");
        }
        assert!(PM_NEW_COOKIES as usize == asked, "asks for exactly as many new cookies as are missing (limited by packet size)");
        assert!(PM_POLL == c.desired, "poll exponent handed over");
        // the pending request identifier is the one of the request (C07 starts from such a state)
        match sh::pending(src) {
            Some((_, Some(uid), _)) => assert!(eq_words(&uid, &PM_UID, 32), "pending unique identifier = the one of the request"),
            _ => assert!(false, "an NTS request leaves a pending identifier with a uid"),
        }
        kani::cover!(c.valid == 8 && PM_NEW_COOKIES == 1, "full stash: ask for one");
        kani::cover!(c.valid == 1 && PM_NEW_COOKIES == 8, "last cookie: ask for eight");
        kani::cover!(c.valid == 3 && c.l == 64 && c.content[63] == 0xAA, "cookie content symbolic");
        kani::cover!(c.l == 0, "empty cookie");
    }
}

nharness! {
    #[kani::unwind(6)]
    #[kani::stub(ntp_proto::NtpPacket::nts_poll_message, crate::common::nts_poll_message_rec)]
    #[kani::stub(ntp_proto::NtpPacket::nts_poll_message_v5, crate::common::nts_poll_message_v5_rec)]
    fn c13_poll_timer_v4() {
        c13_poll_timer_body(false);
    }
}

nharness! {
    #[kani::unwind(6)]
    #[kani::stub(ntp_proto::NtpPacket::nts_poll_message, crate::common::nts_poll_message_rec)]
    #[kani::stub(ntp_proto::NtpPacket::nts_poll_message_v5, crate::common::nts_poll_message_v5_rec)]
    fn c13_poll_timer_v5() {
        c13_poll_timer_body(true);
    }
}

fn c13_poll_message_body(v5: bool, lmax: usize, nmax: u8) {
    use ntp_proto::verif::packet as ph;
    use ntp_proto::verif::packet::extension_fields::ExtField;
    sym_rng();
    let l: usize = kani::any();
    kani::assume(l <= lmax && lmax <= 32);
    let content: [u8; 32] = kani::any();
    let n: u8 = kani::any();
    kani::assume(n >= 1 && n <= nmax && nmax <= 8);
    let pollv: i8 = kani::any();
    let jc: usize = kani::any();
    kani::assume(jc < 32);

    let (p, id) = if v5 { NtpPacket::nts_poll_message_v5(&content[..l], n, poll(pollv)) } else { NtpPacket::nts_poll_message(&content[..l], n, poll(pollv)) };

    let auth = ph::packet_authenticated(&p);
    assert!(ph::packet_encrypted(&p).is_empty() && ph::packet_untrusted(&p).is_empty(), "all request fields are in the authenticated part");
    assert!(auth.len() == 1 + n as usize + if v5 { 1 } else { 0 }, "identifier + cookie + placeholders (+ draft id)");
    let (_, uid) = ph::request_identifier_parts(id);
    match (&auth[0], uid) {
        (ExtField::UniqueIdentifier(u), Some(want)) => assert!(u.len() == 32 && eq_words(u, &want, 32), "first field: the unique identifier that is remembered"),
        _ => assert!(false, "first field is the unique identifier"),
    }
    match &auth[1] {
        ExtField::NtsCookie(ck) => {
            assert!(ck.len() == l, "second field: the cookie, whole");
            if jc < l {
                assert!(ck[jc] == content[jc], "cookie content unchanged (every byte)");
            }
        }
        _ => assert!(false, "second field is the cookie"),
    }
    let mut n_ph = 0usize;
    let mut n_cookie = 0usize;
    let mut i = 2;
    while i < 10 {
        if i < auth.len() {
            match &auth[i] {
                ExtField::NtsCookiePlaceholder { cookie_length } => {
                    n_ph += 1;
                    assert!(*cookie_length as usize == l, "placeholder as long as the cookie");
                }
                ExtField::NtsCookie(_) => n_cookie += 1,
                ExtField::DraftIdentification(_) => assert!(v5 && i == auth.len() - 1, "draft identification last (NTPv5 only)"),
                _ => assert!(false, "no other fields"),
            }
        }
        i += 1;
    }
    assert!(n_cookie == 0, "exactly one cookie per request");
    assert!(1 + n_ph == n as usize, "one field per requested cookie");
    assert!(p.poll() == poll(pollv), "poll exponent in the header");
    kani::cover!(n == nmax && l == lmax && content[lmax - 1] == 0x55, "most cookies requested");
    kani::cover!(n == 1 && l == 0, "empty cookie, no placeholder");
    // not dropped: the drop glue of a Vec of fields of symbolic length and kind is a large loop
    core::mem::forget(p);
}

nharness! {
    #[kani::unwind(12)]
    fn c13_poll_message_v4() {
        c13_poll_message_body(false, 32, 8);
    }
}

// NOT registered: runs out of 12 GB in the solver (the v4 builder passes in 58 s).
nharness! {
    #[kani::unwind(12)]
    fn c13_poll_message_v5() {
        c13_poll_message_body(true, 8, 3);
    }
}
