//! Kani harnesses (external crate, path dependency on /repo).
#![feature(allocator_api)]
#![recursion_limit = "512"]
#![allow(unused, static_mut_refs)]
#[path = "../../common/stubs.rs"]
pub mod stubs;
#[path = "../../common/util.rs"]
#[macro_use]
pub mod util;
#[macro_use]
pub mod common;
#[cfg(kani)]
mod c07;
#[cfg(kani)]
mod c10;
#[cfg(kani)]
mod c13;
#[cfg(kani)]
mod c14;
#[cfg(kani)]
mod c33;
