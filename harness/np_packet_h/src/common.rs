//! Shared helpers for the packet harnesses (C23, C24, C25): ideal-AEAD models, packet image
//! builders (layout templates), thin wrappers around the public decoder/encoder.
//!
//! Trusted base added here (DESIGN §2.6):
//! * `ModelCipher`  — ideal AEAD with a ghost log: `encrypt` leaves the plaintext in place, puts a
//!   ghost nonce (16 bytes) in front and a ghost tag (16 bytes) behind it and records
//!   (key, aad, nonce, ciphertext||tag); `decrypt` succeeds iff exactly that triple is presented
//!   under the same key (INT-CTXT idealisation), returning the ciphertext minus the tag.
//! * `OracleCipher` — over-approximation used for totality (C23): every `decrypt` call takes an
//!   arbitrary accept/reject decision from a ghost tape filled up front by the harness; on accept
//!   the plaintext is the ciphertext minus a 16-byte tag (ciphertexts shorter than a tag are
//!   rejected, as AES-SIV does). Any AEAD + any key + any log content behaves like one of the
//!   tapes, and the plaintext bytes are arbitrary because the packet bytes are.
#![allow(dead_code, static_mut_refs)]
use ntp_proto::verif::packet::crypto::{AesSivCmac256, AesSivCmac512, DecryptError};
use ntp_proto::verif::packet as ph;
use ntp_proto::{Cipher, CipherProvider, EncryptResult, NoCipher, NtpPacket, PacketParsingError};
use std::io::Cursor;

pub const NONCE_LEN: usize = 16;
pub const TAG_LEN: usize = 16;
pub const MAX_AAD: usize = 152;
pub const MAX_CT: usize = 64;

// ------------------------------------------------------------------ ideal AEAD with ghost log
#[derive(Clone, Copy)]
pub struct LogEntry {
    pub valid: bool,
    pub key: u8,
    pub aad_len: usize,
    pub aad: [u8; MAX_AAD],
    pub nonce: [u8; NONCE_LEN],
    pub ct_len: usize,
    pub ct: [u8; MAX_CT],
}
pub const EMPTY_ENTRY: LogEntry =
    LogEntry { valid: false, key: 0, aad_len: 0, aad: [0; MAX_AAD], nonce: [0; NONCE_LEN], ct_len: 0, ct: [0; MAX_CT] };
/// What was really encrypted (one entry per key id 0/1).
pub static mut LOG: [LogEntry; 2] = [EMPTY_ENTRY; 2];
/// Ghost randomness of the model (harness fills it with symbolic bytes up front).
pub static mut ENC_NONCE: [u8; NONCE_LEN] = [0; NONCE_LEN];
pub static mut ENC_TAG: [u8; TAG_LEN] = [0; TAG_LEN];
/// Number of successful model decryptions (vacuity guards).
pub static mut DEC_OK: usize = 0;
pub static mut DEC_CALLS: usize = 0;

pub struct ModelCipher {
    pub key: u8,
    pub key_bytes: [u8; 32],
}
impl ModelCipher {
    pub fn new(key: u8) -> Self {
        ModelCipher { key, key_bytes: [key; 32] }
    }
}
impl zeroize::ZeroizeOnDrop for ModelCipher {}

pub fn model_encrypt(key: u8, buffer: &mut [u8], plaintext_length: usize, aad: &[u8]) -> std::io::Result<EncryptResult> {
    let ct_len = plaintext_length + TAG_LEN;
    if buffer.len() < NONCE_LEN + ct_len || aad.len() > MAX_AAD || ct_len > MAX_CT {
        return Err(std::io::ErrorKind::WriteZero.into());
    }
    buffer.copy_within(..plaintext_length, NONCE_LEN);
    unsafe {
        buffer[..NONCE_LEN].copy_from_slice(&ENC_NONCE);
        buffer[NONCE_LEN + plaintext_length..NONCE_LEN + ct_len].copy_from_slice(&ENC_TAG);
        let e = &mut LOG[(key & 1) as usize];
        e.valid = true;
        e.key = key;
        e.aad_len = aad.len();
        e.aad[..aad.len()].copy_from_slice(aad);
        e.nonce = ENC_NONCE;
        e.ct_len = ct_len;
        e.ct[..ct_len].copy_from_slice(&buffer[NONCE_LEN..NONCE_LEN + ct_len]);
    }
    Ok(EncryptResult { nonce_length: NONCE_LEN, ciphertext_length: ct_len })
}

/// Record (aad, nonce, ct) as "really encrypted under `key`" without running an encryption.
pub fn model_log(key: u8, aad: &[u8], nonce: &[u8; NONCE_LEN], ct: &[u8]) {
    unsafe {
        let e = if key & 1 == 0 { &mut LOG[0] } else { &mut LOG[1] };
        *e = EMPTY_ENTRY;
        e.valid = true;
        e.key = key;
        e.aad_len = aad.len();
        e.aad[..aad.len()].copy_from_slice(aad);
        e.nonce = *nonce;
        e.ct_len = ct.len();
        e.ct[..ct.len()].copy_from_slice(ct);
    }
}

pub fn model_decrypt(key: u8, nonce: &[u8], ct: &[u8], aad: &[u8]) -> Result<Vec<u8>, DecryptError> {
    unsafe {
        DEC_CALLS += 1;
        let e = &LOG[(key & 1) as usize];
        if !e.valid || e.key != key || ct.len() < TAG_LEN || nonce.len() != NONCE_LEN || aad.len() != e.aad_len || ct.len() != e.ct_len || aad.len() > MAX_AAD || ct.len() > MAX_CT {
            return Err(DecryptError);
        }
        // compare zero-padded fixed-size copies (memcmp over a constant length: a comparison of
        // two slices of symbolic length is unrolled to the memcmp bound on every infeasible path)
        let mut a = [0u8; MAX_AAD];
        a[..aad.len()].copy_from_slice(aad);
        let mut c = [0u8; MAX_CT];
        c[..ct.len()].copy_from_slice(ct);
        let mut n = [0u8; NONCE_LEN];
        n.copy_from_slice(nonce);
        if n == e.nonce && a == e.aad && c == e.ct {
            DEC_OK += 1;
            Ok(ct[..ct.len() - TAG_LEN].to_vec())
        } else {
            Err(DecryptError)
        }
    }
}

impl Cipher for ModelCipher {
    fn encrypt(&self, buffer: &mut [u8], plaintext_length: usize, associated_data: &[u8]) -> std::io::Result<EncryptResult> {
        model_encrypt(self.key, buffer, plaintext_length, associated_data)
    }
    fn decrypt(&self, nonce: &[u8], ciphertext: &[u8], associated_data: &[u8]) -> Result<Vec<u8>, DecryptError> {
        model_decrypt(self.key, nonce, ciphertext, associated_data)
    }
    fn key_bytes(&self) -> &[u8] {
        &self.key_bytes
    }
}

/// Fill the model's ghost randomness with arbitrary bytes and clear the log (call up front).
#[cfg(kani)]
pub fn symbolic_model_randomness() {
    unsafe {
        ENC_NONCE = kani::any();
        ENC_TAG = kani::any();
        LOG = [EMPTY_ENTRY; 2];
        DEC_OK = 0;
        DEC_CALLS = 0;
    }
}

/// Recording cipher: `decrypt` stores its arguments (up to two calls) and always refuses.
/// Used to decide "would the ideal AEAD accept this call?" outside the decoder: the decoder depends
/// on the cipher only through the return value of `decrypt`, so
///   ideal-AEAD behaviour of the decoder on an input
///     = behaviour with a refusing cipher, if every recorded call differs from the logged triple,
///     = behaviour with an accepting cipher, if the recorded call is the logged triple.
/// (Running the accepting path symbolically costs > 15 min per decode here: the decrypted
/// plaintext lives on the heap, where CBMC loses all constants.)
pub static mut PROBE0: LogEntry = EMPTY_ENTRY;
pub static mut PROBE1: LogEntry = EMPTY_ENTRY;
pub static mut PROBE_CALLS: usize = 0;
pub static mut PROBE_OVERFLOW: bool = false;
pub struct ProbeCipher;
impl zeroize::ZeroizeOnDrop for ProbeCipher {}
impl Cipher for ProbeCipher {
    fn encrypt(&self, _b: &mut [u8], _n: usize, _aad: &[u8]) -> std::io::Result<EncryptResult> {
        Err(std::io::ErrorKind::Other.into())
    }
    fn decrypt(&self, nonce: &[u8], ct: &[u8], aad: &[u8]) -> Result<Vec<u8>, DecryptError> {
        unsafe {
            let k = PROBE_CALLS;
            PROBE_CALLS += 1;
            if k >= 2 || aad.len() > MAX_AAD || ct.len() > MAX_CT {
                PROBE_OVERFLOW = true;
            } else {
                // two separate records (no symbolically indexed write into an array of records)
                let e = if k == 0 { &mut PROBE0 } else { &mut PROBE1 };
                e.valid = nonce.len() == NONCE_LEN;
                if e.valid {
                    e.nonce.copy_from_slice(nonce);
                }
                e.aad_len = aad.len();
                e.aad[..aad.len()].copy_from_slice(aad);
                e.ct_len = ct.len();
                e.ct[..ct.len()].copy_from_slice(ct);
            }
        }
        Err(DecryptError)
    }
    fn key_bytes(&self) -> &[u8] {
        &[]
    }
}
pub fn probe_reset() {
    unsafe {
        PROBE0 = EMPTY_ENTRY;
        PROBE1 = EMPTY_ENTRY;
        PROBE_CALLS = 0;
        PROBE_OVERFLOW = false;
    }
}
/// Would the ideal AEAD (ghost log entry of `key`) accept recorded call `k`?
pub fn probe_call_is_logged(k: usize, key: u8) -> bool {
    unsafe {
        let p = if k == 0 { &PROBE0 } else { &PROBE1 };
        let e = if key & 1 == 0 { &LOG[0] } else { &LOG[1] };
        // both buffers are zero beyond their length, so equal lengths + equal arrays = equal data
        e.valid && p.valid && p.nonce == e.nonce && p.aad_len == e.aad_len && p.ct_len == e.ct_len && p.aad == e.aad && p.ct == e.ct
    }
}

/// Clear the log but keep the ghost nonce/tag (second encryption with the same "randomness").
pub fn symbolic_model_randomness_keep() {
    unsafe {
        LOG = [EMPTY_ENTRY; 2];
        DEC_OK = 0;
        DEC_CALLS = 0;
    }
}

// ------------------------------------------------------------------ oracle AEAD (totality)
pub const TAPE: usize = 4;
pub static mut ORACLE_ACCEPT: [bool; TAPE] = [false; TAPE];
pub static mut ORACLE_IDX: usize = 0;
pub static mut ORACLE_OK: usize = 0;
/// Plaintext the cookie key "decrypts" a server cookie to (KeySet context).
pub const MAX_COOKIE_PT: usize = 130;
pub static mut COOKIE_PT: [u8; MAX_COOKIE_PT] = [0; MAX_COOKIE_PT];
pub static mut COOKIE_PT_LEN: usize = 0;
pub static mut COOKIE_OK: usize = 0;

#[cfg(kani)]
pub fn symbolic_oracle() {
    unsafe {
        ORACLE_ACCEPT = kani::any();
        ORACLE_IDX = 0;
        ORACLE_OK = 0;
        COOKIE_OK = 0;
    }
}
/// Arbitrary cookie plaintext: any length 0..=130, arbitrary algorithm id and key bytes.
#[cfg(kani)]
pub fn symbolic_cookie_plaintext() {
    unsafe {
        COOKIE_PT = kani::any();
        let l: usize = kani::any();
        kani::assume(l <= MAX_COOKIE_PT);
        COOKIE_PT_LEN = l;
    }
}

fn oracle_next() -> bool {
    unsafe {
        let i = ORACLE_IDX;
        ORACLE_IDX += 1;
        i < TAPE && ORACLE_ACCEPT[i]
    }
}

/// The decoder has `debug_assert_eq!(nonce.len(), 16)` after a successful decryption (dev profile
/// only; "for the current ciphers ... the nonce should always be 16 bytes"). The oracle therefore
/// accepts only 16-byte nonces unless this flag is set (see the report: dev-only panic).
pub static mut ORACLE_ANY_NONCE: bool = false;

pub fn oracle_decrypt_n(nonce: &[u8], ct: &[u8]) -> Result<Vec<u8>, DecryptError> {
    if unsafe { !ORACLE_ANY_NONCE } && nonce.len() != NONCE_LEN {
        oracle_next();
        return Err(DecryptError);
    }
    oracle_decrypt(ct)
}

pub fn oracle_decrypt(ct: &[u8]) -> Result<Vec<u8>, DecryptError> {
    if oracle_next() && ct.len() >= TAG_LEN {
        unsafe {
            ORACLE_OK += 1;
        }
        Ok(ct[..ct.len() - TAG_LEN].to_vec())
    } else {
        Err(DecryptError)
    }
}

pub struct OracleCipher;
impl zeroize::ZeroizeOnDrop for OracleCipher {}
impl Cipher for OracleCipher {
    fn encrypt(&self, _b: &mut [u8], _n: usize, _aad: &[u8]) -> std::io::Result<EncryptResult> {
        Err(std::io::ErrorKind::Other.into())
    }
    fn decrypt(&self, nonce: &[u8], ciphertext: &[u8], _aad: &[u8]) -> Result<Vec<u8>, DecryptError> {
        oracle_decrypt_n(nonce, ciphertext)
    }
    fn key_bytes(&self) -> &[u8] {
        &[]
    }
}

/// Stubs for the real AES-SIV types (KeySet context: the cookie keys are `AesSivCmac512`, the
/// session keys recovered from a cookie are `AesSivCmac256`/`512`). Cookie decryption is the call
/// with empty associated data (keyset.rs); it yields the ghost cookie plaintext.
pub fn aes512_decrypt_stub(_s: &AesSivCmac512, nonce: &[u8], ct: &[u8], aad: &[u8]) -> Result<Vec<u8>, DecryptError> {
    if aad.is_empty() {
        if oracle_next() {
            unsafe {
                COOKIE_OK += 1;
                Ok(COOKIE_PT[..COOKIE_PT_LEN].to_vec())
            }
        } else {
            Err(DecryptError)
        }
    } else {
        oracle_decrypt_n(nonce, ct)
    }
}
pub fn aes256_decrypt_stub(_s: &AesSivCmac256, nonce: &[u8], ct: &[u8], _aad: &[u8]) -> Result<Vec<u8>, DecryptError> {
    oracle_decrypt_n(nonce, ct)
}

pub fn aes512_encrypt_stub(_s: &AesSivCmac512, _b: &mut [u8], _n: usize, _aad: &[u8]) -> std::io::Result<EncryptResult> {
    Err(std::io::ErrorKind::Other.into())
}
pub fn aes256_encrypt_stub(_s: &AesSivCmac256, _b: &mut [u8], _n: usize, _aad: &[u8]) -> std::io::Result<EncryptResult> {
    Err(std::io::ErrorKind::Other.into())
}

pub fn real_keyset(id_offset: u32) -> ntp_proto::KeySet {
    // GenericArray from an array: no loop (`try_from` collects byte by byte)
    let keys = vec![AesSivCmac512::new([0u8; 64].into())];
    ntp_proto::verif::keyset::keyset_from_parts(keys, id_offset, 0)
}

/// Loop-free models of `AesSivCmac256::try_from` / `AesSivCmac512::try_from` (length check + copy
/// of the key bytes; the real ones collect an iterator into a GenericArray, a 32/64-trip loop that
/// would force a large global unwind bound on every other loop of the decoder).
pub fn aes256_try_from_stub(key_bytes: &[u8]) -> Result<AesSivCmac256, ntp_proto::verif::packet::crypto::KeyError> {
    if key_bytes.len() != 32 {
        return Err(ntp_proto::verif::packet::crypto::KeyError);
    }
    let mut a = [0u8; 32];
    macro_rules! take { ($($i:expr),*) => { $( a[$i] = key_bytes[$i]; )* } }
    take!(0, 1, 2, 3, 4, 5, 6, 7, 8, 9, 10, 11, 12, 13, 14, 15, 16, 17, 18, 19, 20, 21, 22, 23, 24, 25, 26, 27, 28, 29, 30, 31);
    Ok(AesSivCmac256::new(a.into()))
}
pub fn aes512_try_from_stub<I>(key_bytes: I) -> Result<AesSivCmac512, ntp_proto::verif::packet::crypto::KeyError>
where
    I: IntoIterator,
    I::Item: std::borrow::Borrow<u8>,
    I::IntoIter: ExactSizeIterator,
{
    use std::borrow::Borrow;
    let mut it = key_bytes.into_iter();
    if it.len() != 64 {
        return Err(ntp_proto::verif::packet::crypto::KeyError);
    }
    let mut a = [0u8; 64];
    macro_rules! take { ($($i:expr),*) => { $( a[$i] = match it.next() { Some(b) => *b.borrow(), None => 0 }; )* } }
    take!(0, 1, 2, 3, 4, 5, 6, 7, 8, 9, 10, 11, 12, 13, 14, 15, 16, 17, 18, 19, 20, 21, 22, 23, 24, 25, 26, 27, 28, 29, 30, 31, 32, 33, 34, 35, 36, 37, 38, 39, 40, 41, 42, 43, 44, 45, 46, 47, 48, 49, 50, 51, 52, 53, 54, 55, 56, 57, 58, 59, 60, 61, 62, 63);
    Ok(AesSivCmac512::new(a.into()))
}

// ------------------------------------------------------------------ packet images
pub const T_UID: u16 = 0x0104;
pub const T_COOKIE: u16 = 0x0204;
pub const T_PLACEHOLDER: u16 = 0x0304;
pub const T_NTS: u16 = 0x0404;
pub const T_DRAFT: u16 = 0xF5FF;
pub const T_PADDING: u16 = 0xF501;
pub const T_REFID_REQ: u16 = 0xF503;
pub const T_REFID_RESP: u16 = 0xF504;
pub const DRAFT: &[u8; 23] = b"draft-ietf-ntp-ntpv5-09";

pub fn pin16(buf: &mut [u8], at: usize, v: u16) {
    buf[at] = (v >> 8) as u8;
    buf[at + 1] = v as u8;
}
pub fn get16(buf: &[u8], at: usize) -> u16 {
    ((buf[at] as u16) << 8) | buf[at + 1] as u16
}
pub fn pin_version(buf: &mut [u8], version: u8) {
    buf[0] = (buf[0] & 0xC7) | (version << 3);
}
/// Type + length of an extension field header at `at`.
pub fn pin_ef(buf: &mut [u8], at: usize, ty: u16, len: u16) {
    pin16(buf, at, ty);
    pin16(buf, at + 2, len);
}
/// The NTPv5 draft identification field every accepted NTPv5 packet must carry (27 bytes + 1
/// byte of padding, which stays whatever it was).
pub fn pin_draft(buf: &mut [u8], at: usize) {
    pin_ef(buf, at, T_DRAFT, 27);
    // element-wise constant writes (no loop, no memcpy): a memcpy followed by further element
    // writes makes CBMC lose constant propagation for the whole array (measured)
    macro_rules! put { ($($i:expr),*) => { $( buf[at + 4 + $i] = DRAFT[$i]; )* } }
    put!(0, 1, 2, 3, 4, 5, 6, 7, 8, 9, 10, 11, 12, 13, 14, 15, 16, 17, 18, 19, 20, 21, 22);
}
pub const fn pad4(n: usize) -> usize {
    (n + 3) & !3
}

/// Concrete layout: first header byte `b0` (leap/version/mode) concrete; for NTPv5 the control
/// bytes 12 (timescale) and 14..16 (flags) concrete as well (`v5ctl` = (timescale, flag bits)).
/// Everything else in the header symbolic. Why concrete: every feasible early `return Err` of the
/// header parser is merged with the Ok value, after which CBMC no longer knows the constant header
/// size and the field parser runs on symbolic offsets (measured: > 300 s instead of 4 s). The header
/// parser alone is covered with fully symbolic bytes by the unstructured harnesses.
/// `cut` bytes are chopped off the end (truncated images).
#[cfg(kani)]
pub fn layout<const N: usize, const K: usize>(b0: u8, v5ctl: Option<(u8, u8)>, fields: [F; K], trailer: usize, cut: usize) -> Img<N, K> {
    let mut img: Img<N, K> = image(None, fields, trailer, trailer);
    img.buf[0] = b0;
    if let Some((ts, fl)) = v5ctl {
        img.buf[12] = ts;
        img.buf[14] = 0;
        img.buf[15] = fl;
    }
    assert!(cut <= img.len - 48);
    img.len -= cut;
    img
}

// ------------------------------------------------------------------ decoder / encoder wrappers
pub enum Outcome<'a> {
    Accepted(NtpPacket<'a>, bool),
    DecryptFailed(NtpPacket<'a>),
    Rejected,
}

impl Outcome<'_> {
    /// 0 = rejected, 1 = decrypt error, 2 = accepted
    pub fn code(&self) -> u8 {
        match self {
            Outcome::Rejected => 0,
            Outcome::DecryptFailed(_) => 1,
            Outcome::Accepted(..) => 2,
        }
    }
}
pub const REJ: u8 = 0;
pub const DEC: u8 = 1;
pub const ACC: u8 = 2;

pub fn decode<'a>(data: &'a [u8], cipher: &(impl CipherProvider + ?Sized)) -> Outcome<'a> {
    // Values that are not needed are forgotten, not dropped: the generic drop glue of
    // `ParsingError<NtpPacket>` / `Option<DecodedServerCookie>` switches on a merged (symbolic)
    // discriminant and walks three `Vec<ExtensionField>` of unknown length on infeasible paths,
    // which dominates symbolic execution (measured: ~2 s per phantom iteration).
    match NtpPacket::deserialize(data, cipher) {
        Ok((p, c)) => {
            let has_cookie = c.is_some();
            std::mem::forget(c);
            Outcome::Accepted(p, has_cookie)
        }
        Err(PacketParsingError::DecryptError(p)) => Outcome::DecryptFailed(p),
        Err(e) => {
            std::mem::forget(e);
            Outcome::Rejected
        }
    }
}

/// Encode into `out`, returning the number of bytes written.
pub fn encode(p: &NtpPacket<'_>, cipher: &(impl CipherProvider + ?Sized), out: &mut [u8]) -> std::io::Result<usize> {
    let mut cur = Cursor::new(out);
    p.serialize(&mut cur, cipher, None)?;
    Ok(cur.position() as usize)
}

// ------------------------------------------------------------------ layout templates
/// One extension field of a template: its type (pinned or symbolic) and the envelope of its
/// length field (`lo == hi`: concrete). Body and padding bytes are always symbolic.
#[derive(Clone, Copy)]
pub enum Ty {
    Any,
    Is(u16),
    /// the NTPv5 draft identification with the expected string (length 27)
    Draft,
}
#[derive(Clone, Copy)]
pub struct F {
    pub ty: Ty,
    pub lo: u16,
    pub hi: u16,
}
pub const fn f(ty: Ty, lo: u16, hi: u16) -> F {
    F { ty, lo, hi }
}
pub const DRAFT_F: F = F { ty: Ty::Draft, lo: 27, hi: 27 };

pub struct Img<const N: usize, const K: usize> {
    pub buf: [u8; N],
    /// total length of the image
    pub len: usize,
    /// offset and length-field value of every templated field
    pub off: [usize; K],
    pub flen: [u16; K],
    /// number of bytes after the last templated field
    pub trailer: usize,
}

/// 48 symbolic header bytes (version pinned if given), then the templated fields back to back
/// (each padded to a multiple of four), then `tlo..=thi` further symbolic bytes.
#[cfg(kani)]
pub fn image<const N: usize, const K: usize>(version: Option<u8>, fields: [F; K], tlo: usize, thi: usize) -> Img<N, K> {
    let mut buf: [u8; N] = kani::any();
    if let Some(v) = version {
        pin_version(&mut buf, v);
    }
    let mut off = [0usize; K];
    let mut flen = [0u16; K];
    let mut o = 48usize;
    let mut i = 0;
    while i < K {
        let fl = fields[i];
        let l: u16 = if fl.lo == fl.hi {
            fl.lo
        } else {
            let l: u16 = kani::any();
            kani::assume(l >= fl.lo && l <= fl.hi);
            l
        };
        assert!(o + 4 <= N);
        match fl.ty {
            Ty::Any => pin16(&mut buf, o + 2, l),
            Ty::Is(t) => pin_ef(&mut buf, o, t, l),
            Ty::Draft => pin_draft(&mut buf, o),
        }
        off[i] = o;
        flen[i] = l;
        o += pad4(l as usize);
        i += 1;
    }
    let trailer: usize = if tlo == thi {
        tlo
    } else {
        let t: usize = kani::any();
        kani::assume(t >= tlo && t <= thi);
        t
    };
    let len = o + trailer;
    // keep at least one spare byte behind the image: a slice ending exactly at the end of its
    // backing array makes CBMC lose constant propagation on one-past-the-end pointers (measured)
    assert!(len < N);
    Img { buf, len, off, flen, trailer }
}

// ------------------------------------------------------------------ std stubs (trusted base)
/// Loop-free ASCII test for up to 48 bytes (longer inputs: plain loop, needs a matching unwind).
pub fn all_ascii(v: &[u8]) -> bool {
    let n = v.len();
    macro_rules! chk { ($($i:expr),*) => { $( if n > $i && v[$i] >= 0x80 { return false; } )* } }
    chk!(0, 1, 2, 3, 4, 5, 6, 7, 8, 9, 10, 11, 12, 13, 14, 15, 16, 17, 18, 19, 20, 21, 22, 23, 24, 25, 26, 27, 28, 29, 30, 31, 32, 33, 34, 35, 36, 37, 38, 39, 40, 41, 42, 43, 44, 45, 46, 47);
    let mut i = 48;
    while i < n {
        if v[i] >= 0x80 {
            return false;
        }
        i += 1;
    }
    true
}
/// Model of `core::str::from_utf8` used by the packet harnesses: Ok iff every byte is ASCII.
/// The only caller in the code under test (draft identification) rejects non-ASCII strings anyway
/// (`Ok(di) if di.is_ascii()`), so reporting non-ASCII UTF-8 as invalid is observationally
/// equivalent there. The real validation loop (word-at-a-time + SIMD) does not finish symbolic
/// execution for symbolic field contents (measured: > 7 min for one 12-byte field).
pub fn from_utf8_stub(v: &[u8]) -> Result<&str, std::str::Utf8Error> {
    if all_ascii(v) {
        Ok(unsafe { std::str::from_utf8_unchecked(v) })
    } else {
        const _: () = assert!(std::mem::size_of::<std::str::Utf8Error>() == 16);
        // all-zero = { valid_up_to: 0, error_len: None } whatever the field order; never inspected
        Err(unsafe { std::mem::transmute::<[u8; 16], std::str::Utf8Error>([0u8; 16]) })
    }
}
/// Model of `<[u8]>::is_ascii` (the real one takes a SIMD path Kani models with nested loops).
pub fn is_ascii_stub(v: &[u8]) -> bool {
    all_ascii(v)
}

/// zeroize (behind the `Drop` of the AES-SIV key types, server key context): the compiler barrier is
/// inline assembly (no semantic effect; Kani cannot encode it); `volatile_set` is a per-byte
/// volatile-write loop, replaced by the equivalent memset. (Same stubs as np_keyset_h.)
pub fn zeroize_barrier_stub<T: ?Sized>(_val: &T) {}
pub unsafe fn zeroize_volatile_set_stub<T: Copy + Sized>(dst: *mut T, src: T, count: usize) {
    unsafe {
        if std::mem::size_of::<T>() == 1 {
            let b: u8 = std::mem::transmute_copy(&src);
            std::ptr::write_bytes(dst as *mut u8, b, count);
        } else {
            let mut i = 0;
            while i < count {
                std::ptr::write(dst.add(i), src);
                i += 1;
            }
        }
    }
}

/// `harness!` + the two string-validation models above.
#[macro_export]
macro_rules! pharness {
    ( $(#[$m:meta])* fn $name:ident() $body:block ) => {
        harness! {
            #[kani::stub(core::str::from_utf8, crate::common::from_utf8_stub)]
            #[kani::stub(core::slice::ascii::is_ascii, crate::common::is_ascii_stub)]
            // Every `&dyn Cipher` call is resolved by CBMC into a switch over ALL implementations in
            // the binary, including the real AES-SIV ones: their bodies are replaced in every packet
            // harness (oracle model for decrypt, refusal for encrypt), whether or not the harness
            // ever hands out an AES-SIV object.
            #[kani::stub(<ntp_proto::verif::packet::crypto::AesSivCmac512 as ntp_proto::Cipher>::decrypt, crate::common::aes512_decrypt_stub)]
            #[kani::stub(<ntp_proto::verif::packet::crypto::AesSivCmac256 as ntp_proto::Cipher>::decrypt, crate::common::aes256_decrypt_stub)]
            #[kani::stub(<ntp_proto::verif::packet::crypto::AesSivCmac512 as ntp_proto::Cipher>::encrypt, crate::common::aes512_encrypt_stub)]
            #[kani::stub(<ntp_proto::verif::packet::crypto::AesSivCmac256 as ntp_proto::Cipher>::encrypt, crate::common::aes256_encrypt_stub)]
            #[kani::stub(zeroize::barrier::optimization_barrier, crate::common::zeroize_barrier_stub)]
            #[kani::stub(zeroize::volatile_set, crate::common::zeroize_volatile_set_stub)]
            $(#[$m])*
            fn $name() $body
        }
    };
}
