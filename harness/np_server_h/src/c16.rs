//! Harnesses for property C16 (see /verif/properties.jsonl): responses never larger than the request.
//!
//! Call shape mirrored from /repo/ntpd/src/daemon/server.rs (ServerTask::serve):
//!     let mut send_buf = [0u8; MAX_PACKET_SIZE];
//!     self.server.handle(source_addr.ip(), convert_net_timestamp(timestamp),
//!                        &buf[..length], &mut send_buf[..length], &mut self.stats)
//! i.e. request = the first `length` bytes of the receive buffer, send buffer = the first `length`
//! bytes of a zeroed MAX_PACKET_SIZE array. (The lead's source extractor ties this to the text.)
//! Every C15 harness asserts the same bound for its inputs; the harnesses here add extension
//! field layouts (unique identifiers, unknown fields, cookies/placeholders outside NTS, NTPv5
//! draft identification, reference-id requests, padding, trailing MAC bytes).
use crate::common::*;
use crate::stubs;
use ntp_proto::verif::{server as sh, time_types as tt};
use ntp_proto::*;
use std::net::{IpAddr, Ipv4Addr, Ipv6Addr};
use std::time::Duration;

const MAX_PACKET_SIZE: usize = 1024;

/// The daemon's call, then the C16 + C21 assertions. Returns the outcome for cover goals.
macro_rules! daemon_call {
    ($server:expr, $client:expr, $recv:expr, $buf:expr, $length:expr, $stats:expr) => {{
        let mut send_buf = [0u8; MAX_PACKET_SIZE];
        let act = $server.handle($client, tt::ts_from_raw($recv), &$buf[..$length], &mut send_buf[..$length], &mut $stats);
        let out = outcome(&act);
        if out.kind.is_some() {
            assert!(out.resp_len <= $length, "C16: response not longer than the request");
            assert!(out.resp_len >= 48, "a response is at least a header");
        }
        check_stats!($stats, out);
        out
    }};
}

srv_harness! {
    #[kani::unwind(4)]
    fn c16_size() {
        // U(52), every policy, every client family, cache slot in an arbitrary state
        stubs::symbolic_clock();
        let cfg = any_cfg(any_nets(), any_nets(), 1);
        let info = any_server_info();
        let now: u64 = kani::any();
        let recv: u64 = kani::any();
        let fam: u8 = kani::any();
        kani::assume(fam <= 2);
        let cb: [u8; 16] = kani::any();
        let buf: [u8; 52] = kani::any();
        let length: usize = kani::any();
        kani::assume(length <= 52);
        let seeded: bool = kani::any();
        let client = client_addr(fam, cb);
        let mut server = build_server(&cfg, SymClock { now: tt::ts_from_raw(now) }, info, zero_keyset());
        if seeded {
            // the same client was seen at the earliest possible instant
            sh::server_cache_set_slot(&mut server, 0, Some((client, stubs::make_instant(0, 0))));
        }
        let mut stats = RecStats::new();
        let out = daemon_call!(server, client, recv, buf, length, stats);
        assert!(!stats.nts, "C21: plain request is never counted as NTS");
        kani::cover!(out.kind == Some(Kind::Time) && out.resp_len == 48 && length == 52, "time answer shorter than the request");
        kani::cover!(out.kind == Some(Kind::Time) && out.resp_len == length, "time answer as long as the request");
        kani::cover!(out.kind == Some(Kind::DenyKiss), "deny kiss");
        kani::cover!(out.kind.is_none() && stats.reason == ServerReason::RateLimit, "rate limited");
        std::mem::forget(server);
    }
}

/// NTPv4 template: header | EF1 (type symbolic, length L1) | EF2 (type symbolic, length L2) |
/// trailer of 0..=24 symbolic bytes (MAC or garbage). Field contents symbolic. `L1`, `L2` are
/// concrete multiples of 4 (0 = field absent); the length *fields* on the wire are symbolic
/// but constrained to the template value or to a value that makes the packet malformed.
#[cfg(kani)]
fn size_v4(l1: usize, l2: usize, max_trailer: usize) {
    let cfg = any_cfg(any_nets(), any_nets(), 0);
    let info = any_server_info();
    let now: u64 = kani::any();
    let recv: u64 = kani::any();
    let cb: [u8; 16] = kani::any();
    let mut buf: [u8; 160] = kani::any();
    let trailer: usize = kani::any();
    kani::assume(trailer <= max_trailer);
    let length = 48 + l1 + l2 + trailer;
    kani::assume(length <= 160);
    let mode: u8 = kani::any();
    kani::assume(mode < 8);
    set_version_mode(&mut buf, 4, mode);
    // field types: any 16-bit value (unique id, cookie, placeholder, encrypted, v5-only, unknown)
    if l1 > 0 {
        put_ef_length(&mut buf, 48, l1 as u16);
    }
    if l2 > 0 {
        put_ef_length(&mut buf, 48 + l1, l2 as u16);
    }
    let t1 = u16::from_be_bytes([buf[48], buf[49]]);
    let t2 = u16::from_be_bytes([buf[48 + l1], buf[49 + l1]]);
    let client = client_addr(0, cb);
    let mut server = build_server(&cfg, SymClock { now: tt::ts_from_raw(now) }, info, zero_keyset());
    let mut stats = RecStats::new();
    let out = daemon_call!(server, client, recv, buf, length, stats);
    assert!(out.kind != Some(Kind::Time) || !stats.nts, "C21: no cookie can decode here, so a time answer is never counted as NTS");
    kani::cover!(out.kind == Some(Kind::Time) && l1 > 0 && t1 == 0x0104 && out.resp_len > 48, "unique identifier echoed");
    kani::cover!(out.kind == Some(Kind::Time) && l1 > 0 && t1 != 0x0104 && out.resp_len == 48, "other field dropped from the answer");
    kani::cover!(out.kind == Some(Kind::Time) && l2 > 0 && t1 == 0x0104 && t2 == 0x0104 && out.resp_len == 48 + l1 + l2, "two unique identifiers echoed");
    kani::cover!(out.kind.is_none() && stats.reason == ServerReason::InternalError, "answer did not fit the request-sized buffer: nothing sent");
    kani::cover!(out.kind == Some(Kind::NakKiss), "undecryptable field answered with NAK");
    kani::cover!(out.kind == Some(Kind::DenyKiss) && out.resp_len > 48, "deny kiss echoes the unique identifier");
    std::mem::forget(server);
}

srv_harness! {
    #[kani::unwind(36)]
    fn c16_size_v4_uid16() {
        // shortest field the v4 parser accepts next to a trailer: 16-byte field + 9..=24 trailing bytes
        size_v4(16, 0, 24);
    }
}

srv_harness! {
    #[kani::unwind(36)]
    fn c16_size_v4_uid36() {
        // 36-byte field (32-byte unique identifier as sent by NTS clients), trailer 0..=24
        size_v4(36, 0, 24);
    }
}

srv_harness! {
    #[kani::unwind(36)]
    fn c16_size_v4_two() {
        // two fields (36 + 28 bytes), trailer 0..=24: 112..=136 bytes
        size_v4(36, 28, 24);
    }
}

srv_harness! {
    #[kani::unwind(36)]
    fn c16_size_v4_two_short() {
        // two short fields (16 + 16 bytes), trailer 0..=24
        size_v4(16, 16, 24);
    }
}

/// NTPv5 template: header | draft identification EF (28 bytes, contents symbolic) | EF2 (type
/// symbolic, wire length L2 or L2-1..L2-3 (v5 lengths need not be multiples of 4)) | trailer.
#[cfg(kani)]
fn size_v5(l2: usize, max_trailer: usize) {
    stubs::symbolic_rng();
    let cfg = any_cfg(any_nets(), any_nets(), 0);
    let info = any_server_info();
    let now: u64 = kani::any();
    let recv: u64 = kani::any();
    let cb: [u8; 16] = kani::any();
    let mut buf: [u8; 160] = kani::any();
    let trailer: usize = kani::any();
    kani::assume(trailer <= max_trailer);
    let length = 48 + 28 + l2 + trailer;
    kani::assume(length <= 160);
    let mode: u8 = kani::any();
    kani::assume(mode < 8);
    set_version_mode(&mut buf, 5, mode);
    put_ef_header(&mut buf, 48, 0xF5FF, 27);
    let slack: usize = kani::any();
    kani::assume(slack <= 3);
    if l2 > 0 {
        put_ef_length(&mut buf, 76, (l2 - slack) as u16);
    }
    let t2 = u16::from_be_bytes([buf[76], buf[77]]);
    let client = client_addr(0, cb);
    let mut server = build_server(&cfg, SymClock { now: tt::ts_from_raw(now) }, info, zero_keyset());
    let mut stats = RecStats::new();
    let out = daemon_call!(server, client, recv, buf, length, stats);
    kani::cover!(out.kind == Some(Kind::Time) && out.resp_len == length, "v5 time answer padded to the request size");
    kani::cover!(out.kind == Some(Kind::Time) && l2 > 0 && t2 == 0x0104, "v5 unique identifier echoed");
    kani::cover!(out.kind == Some(Kind::Time) && l2 > 0 && t2 == 0xF503, "v5 reference id request answered");
    kani::cover!(out.kind == Some(Kind::DenyKiss), "v5 deny kiss");
    kani::cover!(out.kind.is_none() && stats.reason == ServerReason::InternalError, "v5 answer did not fit: nothing sent");
    std::mem::forget(server);
}

srv_harness! {
    #[kani::unwind(36)]
    fn c16_size_v5() {
        // header + draft identification only, trailer 0..=8 (76..=84 bytes)
        size_v5(0, 8);
    }
}

srv_harness! {
    #[kani::unwind(36)]
    fn c16_size_v5_ef() {
        // + one more field of 13..=16 bytes on the wire, trailer 0..=8
        size_v5(16, 8);
    }
}

srv_harness! {
    #[kani::unwind(36)]
    fn c16_size_v5_ef40() {
        // + one more field of 37..=40 bytes (32-byte unique id / 36-byte reference id request payload)
        size_v5(40, 4);
    }
}
