//! Harnesses for property C22 (see /verif/properties.jsonl): no datagram crashes the server.
//!
//! Every server harness of this crate (`c15_*` on the policy half, `c16_wire_*`/`c21_once` on the
//! whole `Server::handle`) runs with Kani's panic / arithmetic overflow / bounds / unwrap checks
//! on and is registered for C22 as well. The harnesses here extend the unstructured bound from
//! 52 to 56 bytes (NTPv3/NTPv4: MACs of 5..=8 bytes; NTPv5: one or two extension fields with
//! symbolic type and length words, including an NTS-encrypted field with empty nonce and
//! ciphertext) and cover the floating-point part of a time answer (`c22_encode_dispersion`).
//! As everywhere in this crate the first byte and the length are constants per call (see c15.rs
//! for why); all other bytes are symbolic.
use crate::c16::{class_cfg, Class, ALL_VERSIONS, BUF};
use crate::common::*;
use crate::stubs;
use ntp_proto::verif::{server as sh, time_types as tt};
use ntp_proto::*;
use std::net::{IpAddr, Ipv4Addr, Ipv6Addr};
use std::time::Duration;

/// One end-to-end call, daemon shape, concrete policy class; returns what happened.
#[cfg(kani)]
fn call(class: Class, msg: &[u8; 64], len: usize) -> (Outcome, RecStats) {
    any_dispersion();
    let info = any_server_info();
    let now: u64 = kani::any();
    let recv: u64 = kani::any();
    let client = IpAddr::V4(Ipv4Addr::new(192, 0, 2, 1));
    let cfg = class_cfg(class, ALL_VERSIONS);
    let mut server = build_server(&cfg, SymClock { now: tt::ts_from_raw(now) }, info, zero_keyset());
    let mut stats = RecStats::new();
    let mut send_buf = [0u8; 64];
    let act = server.handle(client, tt::ts_from_raw(recv), &msg[..len], &mut send_buf[..len], &mut stats);
    // reaching this point = handle() returned normally
    let out = outcome(&act);
    check_stats!(stats, out);
    if out.kind.is_some() {
        assert!(out.resp_len <= len, "C16: response not longer than the request");
    }
    std::mem::forget(server);
    (out, stats)
}

srv_harness! {
    #[kani::unwind(4)]
    fn c22_any_v4_56() {
        // NTPv4 client request with an 8-byte trailer (MAC-sized): answered
        let mut msg: [u8; 64] = kani::any();
        msg[0] = 0x23;
        let (out, _) = call(Class::Time, &msg, 56);
        assert!(out.kind == Some(Kind::Time) && out.resp_len == 48, "answered without the MAC");
        kani::cover!(out.kind == Some(Kind::Time), "56-byte request answered");
    }
}

srv_harness! {
    #[kani::unwind(4)]
    fn c22_any_v3_53_55() {
        // NTPv3 with 5, 6 and 7 trailing bytes (accepted as a MAC by the parser): answered
        let mut msg: [u8; 64] = kani::any();
        msg[0] = 0x1B;
        let (out, _) = call(Class::Time, &msg, 53);
        kani::cover!(out.kind == Some(Kind::Time), "53-byte request answered");
        let (out, _) = call(Class::DenyList, &msg, 54);
        kani::cover!(out.kind == Some(Kind::DenyKiss), "54-byte request denied");
        let (out, _) = call(Class::Time, &msg, 55);
        kani::cover!(out.kind == Some(Kind::Time), "55-byte request answered");
    }
}

srv_harness! {
    #[kani::unwind(6)]
    fn c22_any_v5_56() {
        // NTPv5 header + 4 or 8 symbolic bytes: extension fields with symbolic type and length
        // (never a draft identification that matches: too short), in request and response mode
        let mut msg: [u8; 64] = kani::any();
        msg[0] = 0x2B;
        let (out, stats) = call(Class::Time, &msg, 56);
        assert!(out.kind.is_none(), "no NTPv5 datagram of 56 bytes can be answered (no draft identification; a NAK needs 76 bytes)");
        kani::cover!(stats.reason == ServerReason::ParseError, "rejected by the parser");
        kani::cover!(stats.reason == ServerReason::InternalError, "NAK for an empty encrypted field does not fit");
        let (out, _) = call(Class::Time, &msg, 52);
        assert!(out.kind.is_none(), "no NTPv5 datagram of 52 bytes can be answered");
        msg[0] = 0x2C;
        let (out, _) = call(Class::DenyList, &msg, 56);
        assert!(out.kind.is_none(), "response-mode NTPv5 datagram of 56 bytes is not answered");
    }
}

/// The only floating-point computation in a time answer: root dispersion = sqrt(polynomial in
/// the time since the variance base) -> NtpDuration::from_seconds -> 16.16 / time32 wire format.
/// sqrt yields a non-negative number, +inf or NaN; the wire encoders `assert!` non-negativity.
/// Dev-only checks excluded by assumption: from_seconds' debug_assert (NaN/inf) and
/// to_bits_short's debug_assert (> 65535 s); release saturates / maps NaN to 0.
#[kani::proof]
fn c22_encode_dispersion() {
    let x: f64 = kani::any();
    kani::assume(x >= 0.0 && x < 65535.0);
    let d = NtpDuration::from_seconds(x);
    assert!(tt::dur_raw(d) >= 0, "dispersion of a non-negative float is non-negative");
    let s = tt::dur_to_bits_short(d);
    let t = tt::dur_to_bits_time32(d);
    // value oracle: the seconds half of the 16.16 encoding is floor(x)
    let secs = u16::from_be_bytes([s[0], s[1]]);
    assert!(secs as f64 <= x && x < secs as f64 + 1.0, "16.16 seconds field is floor(x)");
    kani::cover!(secs == 65534, "large dispersion");
    kani::cover!(x > 0.0 && secs == 0 && s[2] == 0 && s[3] == 0, "tiny dispersion rounds to zero");
    kani::cover!(u32::from_be_bytes(t) == u32::MAX, "time32 saturates at 16 s");
}
