//! Harnesses for property C14 (see /verif/properties.jsonl):
//! producing the next request either yields a packet that fits the 1024-byte send buffer or asks
//! for a reset; it never crashes (Kani checks every panic, `expect`, index and overflow on the way).
//!
//! Encoding a request with many extension fields symbolically is out of reach (measured on
//! `NtpSource::handle_timer` with NTS: global unwind 8 = 17 s, unwind 10 > 5 min and > 4 GB, because
//! the encoder dispatches on a symbolic field kind at a symbolic cursor position in every
//! iteration). The claim is therefore decided in pieces, each a solver query over its whole space:
//!   * c14_poll_wire_* / c14_poll_edge_*: the REAL `handle_timer` + REAL encoder for every request
//!     with at most 3 (NTPv4) / 2 (NTPv5) cookie-sized fields: all stash fills when the cookie is
//!     long (L >= 242: at most 2 fit), stash fill 6..=8 / 7..=8 otherwise;
//!   * c14_ef_size: the REAL per-field encoder for the cookie-dependent fields, every L <= 1024 and
//!     every remaining buffer size: writes exactly E(L) bytes or fails cleanly;
//!   * c14_budget: with the sizes established above, the number of fields `handle_timer` asks for
//!     (its margin rule, recomputed here from the property text) never exceeds the buffer — for all
//!     L <= 1024, all stash fills, both wire formats (arithmetic over the harness's own formula,
//!     tied to the code by the two harness groups above);
//!   * c14_write_zeros_model: the loop-free model of `write_zeros` used in the poll harnesses equals
//!     the real loop;
//!   * c14_poll_plain: sources without NTS, all protocol versions.
use crate::common::*;
use crate::stubs;
use ntp_proto::verif::packet::extension_fields as eh;
use ntp_proto::verif::source as sh;
use ntp_proto::*;
use std::borrow::Cow;
use std::io::Cursor;

/// wire size of a cookie / placeholder field for a cookie of length l (RFC 7822: 4-byte header,
/// value padded to a word, at least 16 bytes)
fn ef_wire(l: usize) -> usize {
    core::cmp::max((l + 3) / 4 * 4 + 4, 16)
}

/// number of cookies requested (property text + documented margin): min(missing, floor(724/max(L,1)))
fn asked(valid: usize, l: usize) -> usize {
    let missing = MAX_COOKIES - (valid - 1);
    core::cmp::min(missing, 724 / core::cmp::max(l, 1))
}

/// One NTS `handle_timer`, every cookie length 0..=1024 and every stash fill. The encoder call is
/// replaced by the recorder (common.rs): what is checked here is the decision logic of
/// `handle_timer` (send or reset, how many cookie-sized fields) and, with the per-field sizes
/// established by `c14_ef_size`, that the request it assembles fits the buffer.
fn c14_struct_body(version_sel: u8) {
    stubs::symbolic_clock();
    sym_rng();
    let valid: usize = kani::any();
    kani::assume(valid <= MAX_COOKIES);
    let l: usize = kani::any();
    kani::assume(l <= 1024);
    let tries_left: u8 = kani::any();
    let desired: i8 = kani::any();
    kani::assume(desired >= 0 && desired <= 17);
    let reach: u8 = kani::any();
    let tries: usize = kani::any();
    kani::assume(tries <= 4);

    let mut oldest = vec![0u8; 1024];
    oldest.truncate(l);
    let nts = sh::nts_data_with_stash(stash0(valid, oldest), c2s(), s2c());
    let version = version_from(version_sel, tries_left);
    let v5 = version_sel != 0;
    let mut src = new_source(version, SourceConfig::default(), poll(desired), Some(nts));
    sh::set_reach(&mut src, reach);
    sh::set_tries(&mut src, tries);

    let (acts, n) = collect_actions(src.handle_timer());

    let sent = match &acts[0] {
        Some(NtpSourceAction::Send(_)) => {
            assert!(n == 2 && matches!(acts[1], Some(NtpSourceAction::SetTimer(_))), "Send is followed by SetTimer only");
            assert!(valid >= 1 && l <= 724, "a request is only built when a cookie that leaves room exists");
            unsafe {
                assert!(REC_CALLS == 1 && REC_N_COOKIE == 1 && REC_COOKIE_LEN == l && REC_PH_LEN_MISMATCH == 0, "one cookie, placeholders of the same length");
                assert!(1 + REC_N_PH == asked(valid, l), "requested cookies = min(missing, floor(724 / max(L,1)))");
                assert!(REC_N_UID == 1 && REC_UID_LEN == 32 && REC_N_OTHER == if v5 { 2 } else { 0 } && REC_N_ENC == 0 && REC_N_UNTRUSTED == 0, "fixed part of the request");
                assert!(REC_HAS_KEY && REC_DESIRED_SIZE_NONE, "a cipher is supplied; no padding to a desired size");
                // sizes per field: c14_ef_size (cookie-sized fields), constants for the rest
                let fixed = if v5 { 48 + 36 + 28 + 20 + 40 } else { 48 + 36 + 40 };
                assert!(fixed + (1 + REC_N_PH) * ef_wire(l) <= 1024, "the assembled request fits the 1024-byte send buffer");
            }
            true
        }
        Some(NtpSourceAction::Reset) => {
            assert!(n == 1, "Reset stands alone");
            assert!(valid == 0 || l > 724 || (reach == 0 && tries >= 3), "reset only without cookie, with an oversize cookie, or when unreachable");
            assert!(unsafe { REC_CALLS == 0 }, "nothing is encoded on reset");
            false
        }
        _ => {
            assert!(false, "either Send+SetTimer or Reset");
            false
        }
    };
    kani::cover!(sent && valid == 1 && l == 90, "eight cookie-sized fields of 96 bytes");
    kani::cover!(sent && l == 724, "largest cookie that is still sent");
    kani::cover!(sent && l == 0, "empty cookie");
    kani::cover!(!sent && l == 725 && valid == 8 && reach != 0, "reset: oversize cookie");
    kani::cover!(!sent && valid == 0, "reset: no cookies");
    kani::cover!(sent && l == 256 && unsafe { REC_N_PH } == 1, "fit computed without u8 wrap-around");
}

nharness! {
    #[kani::unwind(14)]
    #[kani::stub(ntp_proto::NtpPacket::serialize, crate::common::serialize_recorder)]
    fn c14_poll_struct_v4() {
        c14_struct_body(0);
    }
}

nharness! {
    #[kani::unwind(14)]
    #[kani::stub(ntp_proto::NtpPacket::serialize, crate::common::serialize_recorder)]
    fn c14_poll_struct_v5() {
        let sel: u8 = kani::any();
        kani::assume(sel >= 1 && sel <= 3);
        c14_struct_body(sel);
    }
}

// ------------------------------------------------------------------------------------------
// the per-field encoder, every cookie length and every remaining buffer size
#[kani::proof]
#[kani::unwind(36)]
fn c14_ef_size() {
    let l: usize = kani::any();
    kani::assume(l <= 1024);
    let room: usize = kani::any();
    kani::assume(room <= 1100);
    let kind: u8 = kani::any();
    kani::assume(kind <= 1);
    let v5: bool = kani::any();
    let fill: u8 = kani::any();
    let j: usize = kani::any();

    let mut value = vec![fill; 1024];
    value.truncate(l);
    let ef = if kind == 0 { eh::ExtField::NtsCookie(Cow::Owned(value)) } else { eh::ExtField::NtsCookiePlaceholder { cookie_length: l as u16 } };
    let mut buf = [0xEEu8; 1100];
    let mut w = Cursor::new(&mut buf[..room]);
    let version = if v5 { ExtensionHeaderVersion::V5 } else { ExtensionHeaderVersion::V4 };
    // minimum size 16: what the encoder uses for fields in front of the authenticator
    let r = eh::ef_serialize_hook(&ef, &mut w, 16, version);
    let pos = w.position() as usize;
    let want = ef_wire(l);
    if room >= want {
        assert!(r.is_ok(), "the field is written when it fits");
        assert!(pos == want, "a cookie-sized field occupies exactly max(16, 4 + L rounded up to a word) bytes");
        let len_field = ((buf[2] as usize) << 8) | buf[3] as usize;
        if v5 {
            assert!(len_field == core::cmp::max(l + 4, 16), "NTPv5 length field: unpadded length, at least 16");
        } else {
            assert!(len_field == want, "NTPv4 length field: padded length");
        }
        if j >= 4 && j < want {
            let expect = if kind == 0 && j - 4 < l { fill } else { 0 };
            assert!(buf[j] == expect, "value, then zero padding");
        }
    } else {
        assert!(r.is_err(), "a field that does not fit is an error, never a panic");
        assert!(pos <= room);
    }
    kani::cover!(r.is_ok() && l == 1024 && kind == 1, "largest placeholder");
    kani::cover!(r.is_ok() && l == 0, "empty cookie: padded to the minimum");
    kani::cover!(r.is_err() && room > 16, "does not fit");
    kani::cover!(r.is_ok() && v5 && l % 4 == 1, "v5 unpadded length");
}

// ------------------------------------------------------------------------------------------
// the margin rule against the sizes: arithmetic over all cookie lengths and stash fills
#[kani::proof]
fn c14_budget() {
    let l: usize = kani::any();
    kani::assume(l <= 1024);
    let valid: usize = kani::any();
    kani::assume(valid >= 1 && valid <= MAX_COOKIES);
    let v5: bool = kani::any();
    let n = asked(valid, l);
    let fixed = if v5 { 48 + 36 + 28 + 20 + 40 } else { 48 + 36 + 40 };
    if n >= 1 {
        assert!(fixed + n * ef_wire(l) <= 1024, "header + identifier + requested cookie fields + authenticator fit 1024 bytes");
    } else {
        assert!(l > 724, "no cookie can be requested only for cookies longer than the margin allows");
    }
    kani::cover!(n == 8 && v5 && fixed + n * ef_wire(l) > 900, "close to the limit with eight fields");
    kani::cover!(n == 1 && l == 724, "largest cookie that is still sent");
}

// ------------------------------------------------------------------------------------------
// the write_zeros model used by the poll harnesses (common.rs) against the real loop
#[kani::proof]
#[kani::unwind(36)]
fn c14_write_zeros_model() {
    let n: usize = kani::any();
    kani::assume(n <= 1100);
    let room: usize = kani::any();
    kani::assume(room <= 1100);
    let start: usize = kani::any();
    kani::assume(start <= room);
    let j: usize = kani::any();
    kani::assume(j < 1100);
    let mut a = [0xEEu8; 1100];
    let mut b = [0xEEu8; 1100];
    let (ra, pa) = {
        let mut w = Cursor::new(&mut a[..room]);
        w.set_position(start as u64);
        let r = eh::write_zeros_hook(&mut w, n);
        (r.is_ok(), w.position() as usize)
    };
    let (rb, pb) = {
        let mut w = Cursor::new(&mut b[..room]);
        w.set_position(start as u64);
        let r = write_zeros_single(&mut w, n);
        (r.is_ok(), w.position() as usize)
    };
    assert!(ra == rb, "model and loop succeed/fail together");
    assert!(ra == (start + n <= room), "fails exactly when the zeros do not fit");
    if ra {
        assert!(pa == pb && pa == start + n, "same final position");
        assert!(a[j] == b[j], "same bytes");
        assert!(a[j] == if j >= start && j < start + n { 0 } else { 0xEE }, "exactly n zero bytes");
    }
    kani::cover!(ra && n == 1100 && start == 0, "largest run");
    kani::cover!(!ra && n > 32, "does not fit");
    kani::cover!(ra && n == 0, "nothing to write");
}

// ------------------------------------------------------------------------------------------
// sources without NTS: all protocol versions
harness! {
    #[kani::unwind(12)]
    #[kani::stub(std::collections::HashMap::insert, crate::stubs::hashmap_insert_noop)]
    fn c14_poll_plain() {
        stubs::symbolic_clock();
        stubs::symbolic_rng();
        let version_sel: u8 = kani::any();
        kani::assume(version_sel <= 3);
        let tries_left: u8 = kani::any();
        let desired: i8 = kani::any();
        let remote: i8 = kani::any();
        let reach: u8 = kani::any();
        let tries: usize = kani::any();
        let have_deny: bool = kani::any();

        let mut src = new_source(version_from(version_sel, tries_left), SourceConfig::default(), poll(desired), None);
        sh::set_remote_min_poll_interval(&mut src, poll(remote));
        sh::set_reach(&mut src, reach);
        sh::set_tries(&mut src, tries);
        sh::set_have_deny(&mut src, have_deny);

        let (acts, n) = collect_actions(src.handle_timer());
        let sent = match &acts[0] {
            Some(NtpSourceAction::Send(p)) => {
                assert!(n == 2 && matches!(acts[1], Some(NtpSourceAction::SetTimer(_))), "Send is followed by SetTimer only");
                assert!(p.len() <= 1024, "request fits the 1024-byte send buffer");
                true
            }
            Some(NtpSourceAction::Reset) | Some(NtpSourceAction::Demobilize) => {
                assert!(n == 1, "Reset/Demobilize stands alone");
                assert!(reach == 0 && tries >= 3, "only an unreachable source gives up");
                false
            }
            _ => {
                assert!(false, "Send+SetTimer, Reset or Demobilize");
                false
            }
        };
        kani::cover!(sent && version_sel == 3, "v5 request");
        kani::cover!(sent && version_sel == 1, "upgrade request");
        kani::cover!(sent && version_sel == 0 && desired == -128, "extreme poll exponent");
        kani::cover!(!sent && have_deny, "demobilize");
    }
}

