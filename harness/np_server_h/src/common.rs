//! Shared helpers for the server harnesses (C15, C16, C20, C21, C22): symbolic clock, recording
//! statistics handler, server builder, and the *independent* reference functions (subnet
//! membership by mask arithmetic, response classification from raw bytes, rate-limit arithmetic).
//! Nothing in here calls the code under test to compute an expected value.
use crate::stubs;
use ntp_proto::verif::{ipfilter as fh, keyset as kh, packet::crypto as ch, server as sh, time_types as tt};
use ntp_proto::*;
use std::net::{IpAddr, Ipv4Addr, Ipv6Addr};
use std::sync::{Arc, RwLock};
use std::time::Duration;

// ------------------------------------------------------------------ clock
/// The concrete instantiation of `C: NtpClock` used by every server harness: `now()` returns a
/// value chosen by the harness; every steering entry point panics (the server must never steer).
#[derive(Clone)]
pub struct SymClock {
    pub now: NtpTimestamp,
}
impl NtpClock for SymClock {
    type Error = std::io::Error;
    fn now(&self) -> Result<NtpTimestamp, Self::Error> {
        Ok(self.now)
    }
    fn set_frequency(&self, _freq: f64) -> Result<NtpTimestamp, Self::Error> {
        panic!("server called set_frequency")
    }
    fn get_frequency(&self) -> Result<f64, Self::Error> {
        panic!("server called get_frequency")
    }
    fn step_clock(&self, _offset: NtpDuration) -> Result<NtpTimestamp, Self::Error> {
        panic!("server called step_clock")
    }
    fn disable_ntp_algorithm(&self) -> Result<(), Self::Error> {
        panic!("server called disable_ntp_algorithm")
    }
    fn error_estimate_update(&self, _e: NtpDuration, _m: NtpDuration) -> Result<(), Self::Error> {
        panic!("server called error_estimate_update")
    }
    fn status_update(&self, _l: NtpLeapIndicator) -> Result<(), Self::Error> {
        panic!("server called status_update")
    }
}

// ------------------------------------------------------------------ statistics recorder
pub struct RecStats {
    pub calls: u8,
    pub version: u8,
    pub nts: bool,
    pub reason: ServerReason,
    pub response: ServerResponse,
}
impl RecStats {
    pub fn new() -> Self {
        RecStats { calls: 0, version: 0xEE, nts: false, reason: ServerReason::InternalError, response: ServerResponse::Ignore }
    }
}
impl ServerStatHandler for RecStats {
    fn register(&mut self, version: u8, nts: bool, reason: ServerReason, response: ServerResponse) {
        self.calls = self.calls.saturating_add(1);
        self.version = version;
        self.nts = nts;
        self.reason = reason;
        self.response = response;
    }
}

// ------------------------------------------------------------------ symbolic configuration
pub fn action_from(b: bool) -> FilterAction {
    if b { FilterAction::Deny } else { FilterAction::Ignore }
}
pub fn version_from(x: u8) -> NtpVersion {
    match x % 3 {
        0 => NtpVersion::V3,
        1 => NtpVersion::V4,
        _ => NtpVersion::V5,
    }
}
pub fn version_num(v: NtpVersion) -> u8 {
    match v {
        NtpVersion::V3 => 3,
        NtpVersion::V4 => 4,
        NtpVersion::V5 => 5,
    }
}

/// An address list in the form the harnesses can afford: any union of /4 subnets per family,
/// i.e. one bit per value of the most significant address nibble (bit i set <=> i0.0.0.0/4
/// resp. i000::/4 is listed). 0 = empty list, 0xffff = 0.0.0.0/0 resp. ::/0.
#[derive(Clone, Copy)]
pub struct Nets {
    pub v4_top: u16,
    pub v6_top: u16,
}
impl Nets {
    /// Reference membership: IPv4-mapped IPv6 addresses count as IPv4.
    pub fn contains(&self, a: IpAddr) -> bool {
        match canonical(a) {
            IpAddr::V4(c) => (self.v4_top >> (c.octets()[0] >> 4)) & 1 == 1,
            IpAddr::V6(c) => (self.v6_top >> (c.octets()[0] >> 4)) & 1 == 1,
        }
    }
    /// The same list as `IpSubnet`s (for `Server::new_internal`); concrete `Nets` only.
    pub fn subnets(&self) -> Vec<IpSubnet> {
        let mut v = Vec::new();
        let mut i = 0u8;
        while i < 16 {
            if (self.v4_top >> i) & 1 == 1 {
                v.push(IpSubnet { addr: IpAddr::V4(Ipv4Addr::new(i << 4, 0, 0, 0)), mask: 4 });
            }
            if (self.v6_top >> i) & 1 == 1 {
                v.push(IpSubnet { addr: IpAddr::V6(Ipv6Addr::new((i as u16) << 12, 0, 0, 0, 0, 0, 0, 0)), mask: 4 });
            }
            i += 1;
        }
        v
    }
}

pub struct Cfg {
    pub deny: Nets,
    pub deny_action: FilterAction,
    pub allow: Nets,
    pub allow_action: FilterAction,
    pub cache_size: usize,
    pub cutoff: Duration,
    pub require_nts: Option<FilterAction>,
    /// accepted versions = the first `n_versions` entries of `versions` (duplicates allowed, so
    /// every subset of {V3,V4,V5} including the empty set is representable)
    pub versions: [NtpVersion; 3],
    pub n_versions: usize,
}

impl Cfg {
    pub fn accepts(&self, vn: u8) -> bool {
        let mut i = 0;
        let mut r = false;
        while i < 3 {
            if i < self.n_versions && version_num(self.versions[i]) == vn {
                r = true;
            }
            i += 1;
        }
        r
    }
    pub fn in_deny(&self, a: IpAddr) -> bool {
        self.deny.contains(a)
    }
    pub fn in_allow(&self, a: IpAddr) -> bool {
        self.allow.contains(a)
    }
    /// `lists`: also materialise the subnet lists (needed by `Server::new_internal`; the server
    /// never reads them again after construction).
    pub fn server_config(&self, lists: bool) -> ServerConfig {
        let mut accepted = vec![self.versions[0], self.versions[1], self.versions[2]];
        accepted.truncate(self.n_versions);
        ServerConfig {
            denylist: FilterList { filter: if lists { self.deny.subnets() } else { vec![] }, action: self.deny_action },
            allowlist: FilterList { filter: if lists { self.allow.subnets() } else { vec![] }, action: self.allow_action },
            rate_limiting_cache_size: self.cache_size,
            rate_limiting_cutoff: self.cutoff,
            require_nts: self.require_nts,
            accepted_versions: accepted,
        }
    }
}

/// Symbolic part of the configuration that does not influence the shape of the filters.
#[cfg(kani)]
pub fn any_cfg(deny: Nets, allow: Nets, cache_size: usize) -> Cfg {
    let deny_action = action_from(kani::any());
    let allow_action = action_from(kani::any());
    let rn: u8 = kani::any();
    kani::assume(rn < 3);
    let require_nts = match rn {
        0 => None,
        1 => Some(FilterAction::Ignore),
        _ => Some(FilterAction::Deny),
    };
    let v0: u8 = kani::any();
    let v1: u8 = kani::any();
    let v2: u8 = kani::any();
    kani::assume(v0 < 3 && v1 < 3 && v2 < 3);
    let n_versions: usize = kani::any();
    kani::assume(n_versions <= 3);
    let cs: u64 = kani::any();
    let cn: u32 = kani::any();
    kani::assume(cs < (1 << 40) && cn < 1_000_000_000);
    Cfg {
        deny,
        deny_action,
        allow,
        allow_action,
        cache_size,
        cutoff: Duration::new(cs, cn),
        require_nts,
        versions: [version_from(v0), version_from(v1), version_from(v2)],
        n_versions,
    }
}

pub fn zero_keyset() -> Arc<KeySet> {
    // one concrete all-zero key, ids start at 0; never reached by requests without an NTS cookie
    // `new` + array conversion: no 64-iteration loops (try_from/key_size would need unwind 65)
    let key = ch::AesSivCmac512::new([0u8; 64].into());
    Arc::new(kh::keyset_from_parts(vec![key], 0, 0))
}

/// Synchronisation state with the variance polynomial fixed to 0 (root dispersion stays out of
/// floating point: sqrt(0) = 0) and everything else chosen by the caller.
pub fn server_info(stratum: u8, refid: [u8; 4], precision: NtpDuration, root_delay: NtpDuration, leap: NtpLeapIndicator, base_time: NtpTimestamp) -> NtpServerInfo {
    NtpServerInfo {
        time_snapshot: TimeSnapshot {
            precision,
            root_delay,
            root_variance_base_time: base_time,
            root_variance_base: 0.0,
            root_variance_linear: 0.0,
            root_variance_quadratic: 0.0,
            root_variance_cubic: 0.0,
            leap_indicator: leap,
            accumulated_steps: NtpDuration::ZERO,
            accumulated_steps_threshold: None,
        },
        ntp_snapshot: NtpSnapshot {
            stratum,
            reference_id: ReferenceId::from_ip(IpAddr::V4(Ipv4Addr::new(refid[0], refid[1], refid[2], refid[3]))),
            bloom_filter: ntp_proto::v5::BloomFilter::new(),
        },
    }
}

pub fn leap_from(x: u8) -> NtpLeapIndicator {
    match x % 5 {
        0 => NtpLeapIndicator::NoWarning,
        1 => NtpLeapIndicator::Leap61,
        2 => NtpLeapIndicator::Leap59,
        3 => NtpLeapIndicator::Unknown,
        _ => NtpLeapIndicator::Unsynchronized,
    }
}

/// Symbolic synchronisation state: stratum 1..=255 (0 would make a time answer indistinguishable
/// from a kiss code on the wire), any reference id, any non-negative precision/root delay, any
/// leap indicator, any variance base time.
#[cfg(kani)]
pub fn any_server_info() -> NtpServerInfo {
    let stratum: u8 = kani::any();
    kani::assume(stratum != 0);
    any_server_info_with(stratum)
}
#[cfg(kani)]
pub fn any_server_info_with(stratum: u8) -> NtpServerInfo {
    let refid: [u8; 4] = kani::any();
    let prec: i64 = kani::any();
    let rd: i64 = kani::any();
    // root delay above 65535 s trips a debug_assert in to_bits_short (dev profile only; release saturates)
    kani::assume(prec >= 0 && rd >= 0 && rd <= 0x0000_FFFF_FFFF_FFFF);
    let leap: u8 = kani::any();
    kani::assume(leap < 5);
    let base: u64 = kani::any();
    server_info(stratum, refid, tt::dur_from_raw(prec), tt::dur_from_raw(rd), leap_from(leap), tt::ts_from_raw(base))
}

#[cfg(kani)]
pub fn any_nets() -> Nets {
    Nets { v4_top: kani::any(), v6_top: kani::any() }
}

/// The real constructor (builds the filters with `IpFilter::new` from the configured lists).
pub fn build_server_new(cfg: &Cfg, clock: SymClock, info: NtpServerInfo, keyset: Arc<KeySet>) -> Server<SymClock> {
    Server::new_internal(cfg.server_config(true), clock, Arc::new(RwLock::new(info)), keyset)
}

/// `Server::new_internal` with the two filters supplied ready-made as one-node tries (hook
/// `server_from_parts`): `IpFilter::new` (C31's subject) is far too expensive to execute with
/// symbolic lists; the lookup code (`IpFilter::is_in`, canonicalisation, `BitTree::lookup`) is real.
pub fn build_server(cfg: &Cfg, clock: SymClock, info: NtpServerInfo, keyset: Arc<KeySet>) -> Server<SymClock> {
    sh::server_from_parts(
        cfg.server_config(false),
        clock,
        fh::filter_from_top_nibbles(cfg.deny.v4_top, cfg.deny.v6_top),
        fh::filter_from_top_nibbles(cfg.allow.v4_top, cfg.allow.v6_top),
        Arc::new(RwLock::new(info)),
        keyset,
    )
}

pub fn empty_keyset() -> Arc<KeySet> {
    Arc::new(kh::keyset_from_parts(Vec::new(), 0, 0))
}

/// Client address from 16 symbolic bytes: family 0 = IPv4 (first 4 bytes), 1 = IPv6 as given,
/// 2 = IPv4-mapped IPv6 (::ffff:b12.b13.b14.b15).
pub fn client_addr(fam: u8, b: [u8; 16]) -> IpAddr {
    match fam {
        0 => IpAddr::V4(Ipv4Addr::new(b[0], b[1], b[2], b[3])),
        1 => IpAddr::V6(Ipv6Addr::from(b)),
        _ => IpAddr::V6(Ipv6Addr::from([0, 0, 0, 0, 0, 0, 0, 0, 0, 0, 0xff, 0xff, b[12], b[13], b[14], b[15]])),
    }
}

// ------------------------------------------------------------------ reference: subnets
/// IPv4-mapped IPv6 addresses (::ffff:a.b.c.d) count as the IPv4 address a.b.c.d.
pub fn canonical(a: IpAddr) -> IpAddr {
    match a {
        IpAddr::V4(_) => a,
        IpAddr::V6(v6) => {
            let o = v6.octets();
            let zero = o[0] == 0 && o[1] == 0 && o[2] == 0 && o[3] == 0 && o[4] == 0 && o[5] == 0 && o[6] == 0 && o[7] == 0 && o[8] == 0 && o[9] == 0;
            if zero && o[10] == 0xff && o[11] == 0xff {
                IpAddr::V4(Ipv4Addr::new(o[12], o[13], o[14], o[15]))
            } else {
                a
            }
        }
    }
}

/// Reference subnet membership by prefix-mask arithmetic (no trie).
pub fn subnet_contains(s: &IpSubnet, a: IpAddr) -> bool {
    match (s.addr, canonical(a)) {
        (IpAddr::V4(n), IpAddr::V4(c)) => {
            let n = u32::from_be_bytes(n.octets());
            let c = u32::from_be_bytes(c.octets());
            let m = s.mask as u32;
            if m == 0 {
                true
            } else if m >= 32 {
                n == c
            } else {
                (n >> (32 - m)) == (c >> (32 - m))
            }
        }
        (IpAddr::V6(n), IpAddr::V6(c)) => {
            let n = u128::from_be_bytes(n.octets());
            let c = u128::from_be_bytes(c.octets());
            let m = s.mask as u32;
            if m == 0 {
                true
            } else if m >= 128 {
                n == c
            } else {
                (n >> (128 - m)) == (c >> (128 - m))
            }
        }
        _ => false,
    }
}

// ------------------------------------------------------------------ reference: response bytes
#[derive(Clone, Copy, PartialEq, Eq, Debug)]
pub enum Kind {
    /// mode 4, stratum != 0: a time answer
    Time,
    /// kiss-o'-death DENY (v3/v4: stratum 0 + refid "DENY"; v5: stratum 0 + poll 0x7f, no authnak)
    DenyKiss,
    /// NTS NAK (v3/v4: stratum 0 + refid "NTSN"; v5: stratum 0 + authnak flag)
    NakKiss,
    /// anything else (must never be produced)
    Other,
}

/// Decode what kind of datagram `m` is, straight from RFC 5905 / RFC 8915 / draft-ntpv5 layouts.
pub fn classify(m: &[u8]) -> Kind {
    if m.len() < 48 {
        return Kind::Other;
    }
    let vn = (m[0] >> 3) & 7;
    let mode = m[0] & 7;
    if mode != 4 {
        return Kind::Other;
    }
    let stratum = m[1];
    match vn {
        3 | 4 => {
            if stratum != 0 {
                Kind::Time
            } else if m[12] == b'D' && m[13] == b'E' && m[14] == b'N' && m[15] == b'Y' {
                Kind::DenyKiss
            } else if m[12] == b'N' && m[13] == b'T' && m[14] == b'S' && m[15] == b'N' {
                Kind::NakKiss
            } else {
                Kind::Other
            }
        }
        5 => {
            if stratum != 0 {
                Kind::Time
            } else if m[15] & 0b100 != 0 {
                Kind::NakKiss
            } else if m[2] == 0x7f {
                Kind::DenyKiss
            } else {
                Kind::Other
            }
        }
        _ => Kind::Other,
    }
}

pub fn be64(m: &[u8], at: usize) -> u64 {
    u64::from_be_bytes([m[at], m[at + 1], m[at + 2], m[at + 3], m[at + 4], m[at + 5], m[at + 6], m[at + 7]])
}

/// Statistics kind that corresponds to a decoded response.
pub fn stat_kind(k: Kind) -> Option<ServerResponse> {
    match k {
        Kind::Time => Some(ServerResponse::ProvideTime),
        Kind::DenyKiss => Some(ServerResponse::Deny),
        Kind::NakKiss => Some(ServerResponse::NTSNak),
        Kind::Other => None,
    }
}

// ------------------------------------------------------------------ reference: rate limit
/// `now - prev < cutoff` for instants given as (seconds, nanoseconds < 1e9) pairs; a `now`
/// before `prev` counts as no time passed. Schoolbook subtraction with borrow, then a
/// lexicographic comparison (no multiplication: keeps the solver's job linear).
pub fn within_cutoff(prev: (i64, u32), now: (i64, u32), cutoff: Duration) -> bool {
    let earlier = now.0 < prev.0 || (now.0 == prev.0 && now.1 < prev.1);
    let (ds, dn): (u64, u32) = if earlier {
        (0, 0)
    } else if now.1 >= prev.1 {
        ((now.0 - prev.0) as u64, now.1 - prev.1)
    } else {
        ((now.0 - prev.0 - 1) as u64, now.1 + 1_000_000_000 - prev.1)
    };
    ds < cutoff.as_secs() || (ds == cutoff.as_secs() && dn < cutoff.subsec_nanos())
}

// ------------------------------------------------------------------ the outcome of one handle() call
pub struct Outcome {
    /// None = ServerAction::Ignore
    pub kind: Option<Kind>,
    pub resp_len: usize,
    pub resp_version: u8,
    pub resp_tx: u64,
    pub resp_rx: u64,
}

pub fn outcome(a: &ServerAction<'_>) -> Outcome {
    match a {
        ServerAction::Ignore => Outcome { kind: None, resp_len: 0, resp_version: 0, resp_tx: 0, resp_rx: 0 },
        ServerAction::Respond { message } => {
            let k = classify(message);
            let (v, rx, tx) = if message.len() >= 48 { ((message[0] >> 3) & 7, be64(message, 32), be64(message, 40)) } else { (0, 0, 0) };
            Outcome { kind: Some(k), resp_len: message.len(), resp_version: v, resp_tx: tx, resp_rx: rx }
        }
    }
}

/// C21: exactly one registration, and it says what was done. A macro so that the assertions are
/// attributed to the harness that uses them.
#[macro_export]
macro_rules! check_stats {
    ($stats:expr, $out:expr) => {{
        assert!($stats.calls == 1, "C21: register() called exactly once per handled datagram");
        match $out.kind {
            None => assert!($stats.response == ServerResponse::Ignore, "C21: nothing sent => recorded kind is Ignore"),
            Some(k) => {
                assert!(k != $crate::common::Kind::Other, "response is a time answer, a DENY kiss or an NTS NAK");
                assert!(Some($stats.response) == $crate::common::stat_kind(k), "C21: recorded kind matches the decoded response bytes");
            }
        }
    }};
}

// ------------------------------------------------------------------ harness macro
/// zeroize's compiler barrier is inline assembly (no semantic effect; Kani cannot encode it).
/// Reached when an `AesSivCmac512` is dropped (`key_size()` creates and drops a temporary).
pub fn zeroize_barrier_stub<T: ?Sized>(_val: &T) {}

/// `core::str::from_utf8` runs a doubly nested validation loop that symbolic execution unrolls
/// quadratically in the unwind bound. Its only caller on the `Server::handle` path is
/// `ExtensionField::decode_draft_identification`, which accepts the result only `if di.is_ascii()`
/// (real code, still executed) and otherwise fails exactly as for invalid UTF-8; every ASCII
/// string is valid UTF-8, so skipping the validation does not change the caller's behaviour.
pub fn from_utf8_unchecked_stub(v: &[u8]) -> Result<&str, std::str::Utf8Error> {
    Ok(unsafe { std::str::from_utf8_unchecked(v) })
}

pub fn is_ascii_stub(v: &[u8]) -> bool {
    let mut i = 0;
    let mut ok = true;
    while i < v.len() {
        if v[i] >= 128 {
            ok = false;
        }
        i += 1;
    }
    ok
}

/// Model of `TimeSnapshot::root_dispersion` (sqrt of a cubic polynomial in f64, `powi` is
/// nondeterministic in CBMC): an arbitrary non-negative duration chosen by the harness
/// (`set_dispersion`). Over-approximates every value the real function can return in the release
/// profile (sqrt is non-negative or NaN, `from_seconds` maps NaN to 0 and saturates); the
/// conversion itself is covered by `c22_encode_dispersion`. Values above 65535 s are excluded:
/// they trip a debug_assert in `to_bits_short` (dev profile only; release saturates).
pub static mut DISPERSION: i64 = 0;
pub fn root_dispersion_stub(_s: &TimeSnapshot, _now: NtpTimestamp) -> NtpDuration {
    tt::dur_from_raw(unsafe { DISPERSION })
}
#[cfg(kani)]
pub fn any_dispersion() {
    let d: i64 = kani::any();
    kani::assume(d >= 0 && d <= 0x0000_FFFF_FFFF_FFFF);
    unsafe {
        DISPERSION = d;
    }
}

/// `srv_harness! { #[kani::unwind(n)] fn name() { .. } }` = `harness!` + the zeroize barrier stub, the
/// UTF-8 validation shortcut and the "garbage never authenticates" AEAD model.
#[macro_export]
macro_rules! srv_harness {
    ( $(#[$m:meta])* fn $name:ident() $body:block ) => {
        harness! {
            #[kani::stub(zeroize::barrier::optimization_barrier, crate::common::zeroize_barrier_stub)]
            #[kani::stub(core::str::from_utf8, crate::common::from_utf8_unchecked_stub)]
            #[kani::stub(core::slice::ascii::is_ascii, crate::common::is_ascii_stub)]
            #[kani::stub(ntp_proto::TimeSnapshot::root_dispersion, crate::common::root_dispersion_stub)]
            #[kani::stub(<ntp_proto::verif::packet::crypto::AesSivCmac512 as ntp_proto::verif::packet::crypto::Cipher>::decrypt, crate::common::siv512_decrypt_fails)]
            #[kani::stub(<ntp_proto::verif::packet::crypto::AesSivCmac256 as ntp_proto::verif::packet::crypto::Cipher>::decrypt, crate::common::siv256_decrypt_fails)]
            $(#[$m])*
            fn $name() $body
        }
    };
}

// ------------------------------------------------------------------ crypto model for garbage input
/// Model of `AesSivCmac512::decrypt` (the cookie key) and `AesSivCmac256::decrypt` for the
/// server harnesses of this crate, whose cookie / ciphertext bytes are arbitrary and unrelated to
/// any key: an arbitrary string never authenticates (INT-CTXT idealisation, DESIGN 2.6). AES
/// itself is never bit-blasted. Without the stub symbolic execution walks into AES-SIV even for
/// U(52) inputs, where the call is infeasible; `DECRYPT_CALLS` lets a harness assert that.
pub static mut DECRYPT_CALLS: u32 = 0;
pub fn siv512_decrypt_fails(_this: &ch::AesSivCmac512, _nonce: &[u8], _ciphertext: &[u8], _aad: &[u8]) -> Result<Vec<u8>, ch::DecryptError> {
    unsafe {
        DECRYPT_CALLS += 1;
    }
    Err(ch::DecryptError)
}
pub fn siv256_decrypt_fails(_this: &ch::AesSivCmac256, _nonce: &[u8], _ciphertext: &[u8], _aad: &[u8]) -> Result<Vec<u8>, ch::DecryptError> {
    unsafe {
        DECRYPT_CALLS += 1;
    }
    Err(ch::DecryptError)
}
pub fn decrypt_calls() -> u32 {
    unsafe { DECRYPT_CALLS }
}

// ------------------------------------------------------------------ layout templates
/// Write a concrete extension-field header (type, length) at `at`.
pub fn put_ef_header(m: &mut [u8], at: usize, type_id: u16, length: u16) {
    let t = type_id.to_be_bytes();
    let l = length.to_be_bytes();
    m[at] = t[0];
    m[at + 1] = t[1];
    m[at + 2] = l[0];
    m[at + 3] = l[1];
}
pub fn put_ef_length(m: &mut [u8], at: usize, length: u16) {
    let l = length.to_be_bytes();
    m[at + 2] = l[0];
    m[at + 3] = l[1];
}
/// `stubs::symbolic_rng()` without its 8-iteration loop (keeps harness unwind bounds small).
#[cfg(kani)]
pub fn any_rng() {
    unsafe {
        stubs::RNG_TAPE[0] = kani::any();
        stubs::RNG_TAPE[1] = kani::any();
        stubs::RNG_TAPE[2] = kani::any();
        stubs::RNG_TAPE[3] = kani::any();
        stubs::RNG_TAPE[4] = kani::any();
        stubs::RNG_TAPE[5] = kani::any();
        stubs::RNG_TAPE[6] = kani::any();
        stubs::RNG_TAPE[7] = kani::any();
        stubs::RNG_IDX = 0;
    }
}

/// Write the 23-byte draft identification at `at` without a loop (keeps harness unwind bounds small).
pub fn put_draft_id(m: &mut [u8], at: usize) {
    const D: &[u8; 23] = b"draft-ietf-ntp-ntpv5-09";
    m[at] = D[0]; m[at + 1] = D[1]; m[at + 2] = D[2]; m[at + 3] = D[3]; m[at + 4] = D[4]; m[at + 5] = D[5];
    m[at + 6] = D[6]; m[at + 7] = D[7]; m[at + 8] = D[8]; m[at + 9] = D[9]; m[at + 10] = D[10]; m[at + 11] = D[11];
    m[at + 12] = D[12]; m[at + 13] = D[13]; m[at + 14] = D[14]; m[at + 15] = D[15]; m[at + 16] = D[16]; m[at + 17] = D[17];
    m[at + 18] = D[18]; m[at + 19] = D[19]; m[at + 20] = D[20]; m[at + 21] = D[21]; m[at + 22] = D[22];
}
pub fn set_version_mode(m: &mut [u8], vn: u8, mode: u8) {
    m[0] = (m[0] & 0xC0) | (vn << 3) | mode;
}

// ------------------------------------------------------------------ hash finalisation model (C20 only)
/// Model of `<DefaultHasher as Hasher>::finish` for the rate-limit cache harnesses: the XOR of all
/// words of the SipHash state (keys, compression state after the real `write` calls, buffered
/// tail, length), reduced to 8 bits. It is a deterministic function of (keys, hashed bytes) like
/// the real finalisation, and it is NOT injective, so slot sharing between different addresses
/// stays reachable. Why: `index = hash % len` with an arbitrary 64-bit hash is encoded by CBMC
/// as `hash == q * len + r` (a 64x64 multiplier the SAT solver has to invert): > 10 min per query;
/// with an 8-bit hash the same constraint is solved in seconds.
pub fn hasher_finish_model(h: &std::hash::DefaultHasher) -> u64 {
    // DefaultHasher = SipHasher13 = { k0, k1, length, state: [v0, v2, v1, v3], tail, ntail } = 9 words
    const N: usize = std::mem::size_of::<std::hash::DefaultHasher>() / 8;
    const _: () = assert!(N == 9);
    let w: &[u64; N] = unsafe { &*(h as *const std::hash::DefaultHasher as *const [u64; N]) };
    // no loop: keeps the harness unwind bound independent of this model
    let mut x = w[0] ^ w[1] ^ w[2] ^ w[3] ^ w[4] ^ w[5] ^ w[6] ^ w[7] ^ w[8];
    x ^= x >> 32;
    x ^= x >> 16;
    x ^= x >> 8;
    x & 0xff
}

// ------------------------------------------------------------------ native witness (no solver)
/// DESIGN section 5 / C15: an 80-byte NTPv4 datagram (first byte `b0`) = header + NTS-encrypted
/// extension field (type 0x0404, length 32, nonce length 16, ciphertext length 8), no cookie
/// field, everything else zero, from an allowed client, accepted versions {V4}, NTS not required.
/// Returns the kind of the answer (None = ignored). Runs the real `Server::handle` in the
/// daemon's call shape. Kani cannot execute this path within the 8 GB cap (1.47 M SSA steps for
/// the policy half alone, then out of memory), so the witness is checked natively:
/// `cargo test --release native_` in this crate (see the props file of C15).
pub fn nts_undecryptable_native(b0: u8) -> Option<Kind> {
    let mut msg = [0u8; 160];
    msg[0] = b0;
    put_ef_header(&mut msg, 48, 0x0404, 32);
    msg[53] = 16;
    msg[55] = 8;
    let len = 80;
    let all = Nets { v4_top: 0xffff, v6_top: 0xffff };
    let none = Nets { v4_top: 0, v6_top: 0 };
    let cfg = Cfg {
        deny: none,
        deny_action: FilterAction::Deny,
        allow: all,
        allow_action: FilterAction::Deny,
        cache_size: 0,
        cutoff: Duration::new(1, 0),
        require_nts: None,
        versions: [NtpVersion::V4; 3],
        n_versions: 1,
    };
    let info = server_info(2, [127, 0, 0, 1], NtpDuration::from_exponent(-18), NtpDuration::ZERO, NtpLeapIndicator::NoWarning, tt::ts_from_raw(0));
    let mut server = build_server(&cfg, SymClock { now: tt::ts_from_raw(0x1234_5678_0000_0000) }, info, zero_keyset());
    let mut stats = RecStats::new();
    let mut send_buf = [0u8; 256];
    let act = server.handle(IpAddr::V4(Ipv4Addr::new(192, 0, 2, 1)), tt::ts_from_raw(0x1234_5677_0000_0000), &msg[..len], &mut send_buf[..len], &mut stats);
    let out = outcome(&act);
    assert!(stats.calls == 1);
    out.kind
}

/// One datagram through the real `Server::handle` (daemon call shape) under a concrete policy:
/// `deny_all` = client on the deny list with action deny, else everybody allowed.
pub fn handle_native(msg: &[u8], deny_all: bool) -> (Option<Kind>, RecStats) {
    let all = Nets { v4_top: 0xffff, v6_top: 0xffff };
    let none = Nets { v4_top: 0, v6_top: 0 };
    let cfg = Cfg {
        deny: if deny_all { all } else { none },
        deny_action: FilterAction::Deny,
        allow: all,
        allow_action: FilterAction::Deny,
        cache_size: 0,
        cutoff: Duration::new(1, 0),
        require_nts: None,
        versions: [NtpVersion::V3, NtpVersion::V4, NtpVersion::V5],
        n_versions: 3,
    };
    let info = server_info(2, [127, 0, 0, 1], NtpDuration::from_exponent(-18), NtpDuration::ZERO, NtpLeapIndicator::NoWarning, tt::ts_from_raw(0));
    let mut server = build_server(&cfg, SymClock { now: tt::ts_from_raw(0x1234_5678_0000_0000) }, info, zero_keyset());
    let mut stats = RecStats::new();
    let mut backing = [0u8; 1024];
    backing[..msg.len()].copy_from_slice(msg);
    let mut send_buf = [0u8; 1024];
    let len = msg.len();
    let act = server.handle(IpAddr::V4(Ipv4Addr::new(192, 0, 2, 1)), tt::ts_from_raw(0x1234_5677_0000_0000), &backing[..len], &mut send_buf[..len], &mut stats);
    let out = outcome(&act);
    if let Some(_) = out.kind {
        assert!(out.resp_len <= len, "C16");
    }
    (out.kind, stats)
}

#[cfg(all(test, not(kani)))]
mod native_tests {
    use super::*;

    /// Sampling (not a proof) of the datagram classes Kani cannot execute within the memory cap:
    /// every first byte x every length 0..=52 x three byte patterns x two policies. Expected: only
    /// NTPv3/NTPv4 client-mode datagrams of 48 or 52 bytes are answered; everything else is
    /// ignored and registered exactly once as (ParseError, Ignore).
    #[test]
    fn native_plain_datagrams_up_to_52() {
        for deny in [false, true] {
            for b0 in 0..=255u8 {
                for len in 0..=52usize {
                    for fill in [0x00u8, 0xff, 0x5a] {
                        let mut m = [fill; 52];
                        m[0] = b0;
                        let (kind, stats) = handle_native(&m[..len], deny);
                        assert_eq!(stats.calls, 1);
                        let vn = if len > 0 { (b0 >> 3) & 7 } else { 0 };
                        let ok = len > 0 && (vn == 3 || vn == 4) && (b0 & 7) == 3 && (len == 48 || len == 52);
                        if ok {
                            assert_eq!(kind, Some(if deny { Kind::DenyKiss } else { Kind::Time }), "b0={b0:#x} len={len}");
                        } else {
                            assert_eq!(kind, None, "b0={b0:#x} len={len} fill={fill:#x} was answered");
                            assert!(stats.reason == ServerReason::ParseError && stats.response == ServerResponse::Ignore && !stats.nts);
                        }
                    }
                }
            }
        }
    }

    /// Answer does not fit the caller's buffer: registered once as (InternalError, Ignore).
    #[test]
    fn native_answer_does_not_fit() {
        let mut m = [0u8; 76];
        m[0] = 0x23;
        // 16-byte unique identifier field + 9 trailing bytes: the answer (48 + 28) exceeds 73 bytes
        put_ef_header(&mut m, 48, 0x0104, 16);
        let (kind, stats) = handle_native(&m[..73], false);
        assert_eq!(kind, None);
        assert!(stats.calls == 1 && stats.reason == ServerReason::InternalError && stats.response == ServerResponse::Ignore);
    }

    #[test]
    fn native_client_mode_gets_nak() {
        assert_eq!(nts_undecryptable_native(0x23), Some(Kind::NakKiss));
    }
    /// Fails on the unchanged tree: a SERVER-mode (4) datagram is answered with an NTS NAK.
    #[test]
    fn native_nonclient_mode_is_ignored() {
        for mode in [0u8, 1, 2, 4, 5, 6, 7] {
            assert_eq!(nts_undecryptable_native(0x20 | mode), None, "mode {mode} datagram was answered");
        }
    }
}
