//! Harnesses for property C22 (see /verif/properties.jsonl): no datagram crashes the server.
//!
//! All server harnesses of C15/C16/C21 run with Kani's panic / arithmetic overflow / bounds /
//! unwrap checks on. `c22_any` is the widest unstructured one: U(56) bytes (so that NTPv5
//! datagrams carry up to two 4-byte or one 8-byte extension field, including an NTS-encrypted
//! field with empty nonce/ciphertext), any client, any policy, any cache pre-state, any buffer
//! length 0..=128 (not only request-sized), any synchronisation state within the stated
//! invariants. `c22_encode_dispersion` covers the floating-point part of a time answer
//! separately (root dispersion -> wire format).
use crate::common::*;
use crate::stubs;
use ntp_proto::verif::{server as sh, time_types as tt};
use ntp_proto::*;
use std::net::{IpAddr, Ipv4Addr, Ipv6Addr};
use std::time::Duration;

#[cfg(kani)]
fn any_datagram(request_sized: bool) {
    stubs::symbolic_clock();
    stubs::symbolic_rng();
    let cache: usize = kani::any();
    kani::assume(cache <= 1);
    let cfg = any_cfg(any_nets(), any_nets(), cache);
    let info = any_server_info();
    let now: u64 = kani::any();
    let recv: u64 = kani::any();
    let fam: u8 = kani::any();
    kani::assume(fam <= 2);
    let cb: [u8; 16] = kani::any();
    let msg: [u8; 56] = kani::any();
    let len: usize = kani::any();
    kani::assume(len <= 56);
    let blen: usize = kani::any();
    kani::assume(blen <= 128);
    if request_sized {
        kani::assume(blen == len);
    }
    let seeded: bool = kani::any();
    let pfam: u8 = kani::any();
    kani::assume(pfam <= 2);
    let pb: [u8; 16] = kani::any();
    let client = client_addr(fam, cb);
    let mut server = build_server(&cfg, SymClock { now: tt::ts_from_raw(now) }, info, zero_keyset());
    if seeded && cache == 1 {
        sh::server_cache_set_slot(&mut server, 0, Some((client_addr(pfam, pb), stubs::make_instant(0, 0))));
    }
    let mut stats = RecStats::new();
    let mut buf = [0u8; 128];
    let act = server.handle(client, tt::ts_from_raw(recv), &msg[..len], &mut buf[..blen], &mut stats);
    // reaching this point = handle() returned normally
    let out = outcome(&act);
    check_stats!(stats, out);
    if out.kind.is_some() {
        assert!(out.resp_len <= blen, "response lies inside the caller's buffer");
    }
    let vn = if len > 0 { (msg[0] >> 3) & 7 } else { 0 };
    kani::cover!(out.kind == Some(Kind::Time), "time answer");
    kani::cover!(out.kind == Some(Kind::DenyKiss), "deny kiss");
    kani::cover!(out.kind == Some(Kind::NakKiss) && vn == 5, "NTPv5 NAK for an empty encrypted field");
    kani::cover!(out.kind.is_none() && len == 56 && vn == 5 && stats.reason == ServerReason::ParseError, "56-byte NTPv5 datagram rejected by the parser");
    kani::cover!(out.kind.is_none() && len == 56 && vn == 4 && stats.reason == ServerReason::ParseError && (msg[0] & 7) != 3, "56-byte NTPv4 non-client datagram ignored");
    kani::cover!(out.kind == Some(Kind::Time) && len == 56, "56-byte request (8-byte MAC) answered");
    kani::cover!(out.kind.is_none() && stats.reason == ServerReason::InternalError, "answer did not fit");
    kani::cover!(len == 0, "empty datagram");
    std::mem::forget(server);
}

srv_harness! {
    #[kani::unwind(5)]
    fn c22_any() {
        // the daemon's call shape: send buffer as long as the datagram
        any_datagram(true);
    }
}

srv_harness! {
    #[kani::unwind(5)]
    fn c22_any_buffer() {
        // any send buffer length 0..=128
        any_datagram(false);
    }
}

/// The only floating-point computation in a time answer: root dispersion = sqrt(polynomial in
/// the time since the variance base) -> NtpDuration::from_seconds -> 16.16 / time32 wire format.
/// sqrt yields a non-negative number, +inf or NaN; the wire encoders `assert!` non-negativity.
/// Dev-only checks excluded by assumption: from_seconds' debug_assert (NaN/inf) and
/// to_bits_short's debug_assert (> 65535 s); release saturates / maps NaN to 0.
#[kani::proof]
fn c22_encode_dispersion() {
    let x: f64 = kani::any();
    kani::assume(x >= 0.0 && x < 65535.0);
    let d = NtpDuration::from_seconds(x);
    assert!(tt::dur_raw(d) >= 0, "dispersion of a non-negative float is non-negative");
    let s = tt::dur_to_bits_short(d);
    let t = tt::dur_to_bits_time32(d);
    // value oracle: the 16.16 encoding is the integer part and the top 16 fraction bits
    let secs = u16::from_be_bytes([s[0], s[1]]);
    assert!(secs as f64 <= x && x < secs as f64 + 1.0, "16.16 seconds field is floor(x)");
    kani::cover!(secs == 65534, "large dispersion");
    kani::cover!(x > 0.0 && secs == 0 && s[2] == 0 && s[3] == 0, "tiny dispersion rounds to zero");
    kani::cover!(u32::from_be_bytes(t) == u32::MAX, "time32 saturates at 16 s");
}
