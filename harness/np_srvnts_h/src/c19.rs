//! Harnesses for property C19 (see /verif/properties.jsonl).
use crate::stubs;
