//! Harnesses for property C16 (see /verif/properties.jsonl).
use crate::stubs;
