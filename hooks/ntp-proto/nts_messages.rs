//! Safe-Rust verification hooks for this module (accessors/wrappers only; no logic).
#![allow(unused_imports, dead_code)]
use super::*;

// --- C30 (np_misc_h): message types live in a private module; re-export only.
pub use super::KeyExchangeResponse as Response;
pub use super::Request as KeRequest;
// `NextProtocol` is a private enum: expose the protocol ids of parsed messages as their wire value.
pub fn request_protocol_count(r: &Request<'_>) -> usize {
    match r {
        Request::KeyExchange { protocols, .. } => protocols.len(),
        Request::FixedKey { .. } => 1,
        Request::Support { .. } => 0,
    }
}
pub fn request_protocol_at(r: &Request<'_>, i: usize) -> u16 {
    match r {
        Request::KeyExchange { protocols, .. } => protocols[i].into(),
        Request::FixedKey { protocol, .. } => (*protocol).into(),
        Request::Support { .. } => 0,
    }
}
pub fn response_protocol(r: &KeyExchangeResponse<'_>) -> u16 {
    r.protocol.into()
}
