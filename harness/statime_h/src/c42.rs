//! Harnesses for property C42 (see /verif/properties.jsonl).
use crate::stubs;
