//! Shared pieces of the C26/C27 harnesses: the ideal-AEAD model that replaces the AES-SIV
//! primitive of the server cookie keys (`AesSivCmac512`), the ghost key source that replaces
//! `AesSivCmac512::new_random`, a ghost wall clock, and small constructors.
//!
//! MODEL (trusted base, INT-CTXT idealisation, DESIGN 2.6):
//!   encrypt(key, plaintext, aad = "")  writes  nonce || plaintext || tag  into the buffer, where
//!       nonce and tag are arbitrary 16-byte values (ghost cells filled by the harness up front),
//!       and records (key bytes, nonce, plaintext || tag) in a ghost log (<= LOG_N entries).
//!   decrypt(key, nonce, ct, aad = "")  succeeds, returning ct minus its last 16 bytes, iff
//!       (key bytes, nonce, ct) is exactly an entry of the log; otherwise DecryptError.
//!   Confidentiality is not modelled (the "ciphertext" is the plaintext).
//!   The log holds one encryption per harness run (asserted). Harnesses pick a MODE: in
//!   EXPECT_OK / EXPECT_ERR the stub asserts that the log-determined outcome is success / failure
//!   and returns exactly that, so a wrong expectation is a failed check, never a hidden path.
//! All stubs only read ghost statics; they never call `kani::any()`. In a native replay the
//! stubs are inert and the real AES-SIV / OS randomness / OS clock run; the harness oracles are
//! written on API results only (ghost-based checks are guarded by `model_active()`), so they
//! mean the same thing natively.
#![allow(dead_code, static_mut_refs)]

pub use ntp_proto::verif::keyset as kh;
pub use ntp_proto::verif::packet::crypto::{
    AesSivCmac256, AesSivCmac512, Cipher, DecryptError, EncryptResult, KeyError,
};
pub use ntp_proto::{DecodedServerCookie, KeySet, KeySetProvider};

/// Largest model ciphertext: 2 (algorithm) + 2*64 (keys) + 16 (tag).
pub const MAX_CT: usize = 146;
pub const LOG_N: usize = 1;
pub const KEYS_N: usize = 8;

#[derive(Clone, Copy)]
pub struct LogEntry {
    pub key: [u8; 64],
    pub nonce: [u8; 16],
    pub ct: [u8; MAX_CT],
}

const EMPTY: LogEntry = LogEntry { key: [0; 64], nonce: [0; 16], ct: [0; MAX_CT] };

pub static mut LOG: [LogEntry; LOG_N] = [EMPTY; LOG_N];
pub static mut LOG_LEN: usize = 0;
/// Ciphertext length (plaintext + 16) of the k-th log entry (kept outside the entry: plain scalars).
pub static mut LOG_CT_LEN: [usize; LOG_N] = [0; LOG_N];
/// Ghost nonce / tag of the k-th encryption.
pub static mut NONCE: [[u8; 16]; LOG_N] = [[0; 16]; LOG_N];
pub static mut TAG: [[u8; 16]; LOG_N] = [[0; 16]; LOG_N];
/// Set by the stubs only: false in a native replay (real crypto runs).
pub static mut MODEL_ACTIVE: bool = false;
/// How the decrypt stub reports its (log-determined) outcome. The outcome is always the one the
/// log dictates; in the two EXPECT modes it is *asserted* instead of branched on, because a
/// symbolic Ok/Err flowing through `?` costs two orders of magnitude (see props file).
pub const MODE_GENERAL: u8 = 0;
pub const MODE_EXPECT_OK: u8 = 1;
pub const MODE_EXPECT_ERR: u8 = 2;
pub static mut MODE: u8 = MODE_GENERAL;
pub static mut DECRYPT_CALLS: usize = 0;
/// Ghost key source: the n-th call of `new_random` returns `KEYS[n]`.
pub static mut KEYS: [[u8; 64]; KEYS_N] = [[0; 64]; KEYS_N];
pub static mut KEY_IDX: usize = 0;
/// Ghost wall clock (seconds / nanoseconds since the Unix epoch).
pub static mut WALL_SECS: u64 = 0;
pub static mut WALL_NANOS: u32 = 0;

pub fn model_active() -> bool {
    unsafe { MODEL_ACTIVE }
}

// ------------------------------------------------------------------ stubs
pub fn siv512_encrypt(
    this: &AesSivCmac512,
    buffer: &mut [u8],
    plaintext_length: usize,
    associated_data: &[u8],
) -> std::io::Result<EncryptResult> {
    unsafe {
        MODEL_ACTIVE = true;
        assert!(associated_data.is_empty(), "model: cookie keys are used without associated data");
        assert!(LOG_LEN < LOG_N, "model: encryption log full");
        assert!(plaintext_length + 16 <= MAX_CT, "model: plaintext too long for the log");
        // The real primitive returns an io::Error when the buffer cannot hold nonce, ciphertext
        // and tag; the cookie encoder always reserves that room. The model never builds an
        // io::Error (its recursive drop glue is very expensive to encode) and fails loudly instead.
        assert!(buffer.len() >= 16 + plaintext_length + 16, "model: buffer too small for nonce + ciphertext + tag");
        let k = LOG_LEN;
        let ct_len = plaintext_length + 16;
        buffer.copy_within(..plaintext_length, 16);
        buffer[..16].copy_from_slice(&NONCE[k]);
        buffer[16 + plaintext_length..16 + ct_len].copy_from_slice(&TAG[k]);
        let e = &mut LOG[k];
        e.key.copy_from_slice(this.key_bytes());
        e.nonce = NONCE[k];
        LOG_CT_LEN[k] = ct_len;
        e.ct[..ct_len].copy_from_slice(&buffer[16..16 + ct_len]);
        LOG_LEN += 1;
        Ok(EncryptResult { nonce_length: 16, ciphertext_length: ct_len })
    }
}

pub fn siv512_decrypt(
    this: &AesSivCmac512,
    nonce: &[u8],
    ciphertext: &[u8],
    associated_data: &[u8],
) -> Result<Vec<u8>, DecryptError> {
    unsafe {
        MODEL_ACTIVE = true;
        DECRYPT_CALLS += 1;
        if LOG_LEN == 0 {
            // nothing was ever encrypted: no (key, nonce, ciphertext) is authentic
            return Err(DecryptError);
        }
        let same0 = log_matches(0, this.key_bytes(), nonce, ciphertext, associated_data);
        match MODE {
            MODE_EXPECT_OK => {
                // The harness declares that every decrypt query in this run is the logged
                // ciphertext under the logged key; the model checks that and returns the plaintext.
                assert!(LOG_LEN == 1, "model(expect-ok): exactly one logged encryption");
                assert!(same0, "model(expect-ok): decrypt queried with something else than the logged (key, nonce, ciphertext)");
                Ok(log_plaintext(0))
            }
            MODE_EXPECT_ERR => {
                // The harness declares that no decrypt query in this run is authentic; the model
                // checks that against the log and rejects.
                assert!(LOG_LEN == 1, "model(expect-err): exactly one logged encryption");
                assert!(!same0, "model(expect-err): decrypt queried with the logged (key, nonce, ciphertext)");
                Err(DecryptError)
            }
            _ => {
                assert!(LOG_LEN == 1, "model(general): exactly one logged encryption");
                if same0 { Ok(log_plaintext(0)) } else { Err(DecryptError) }
            }
        }
    }
}

/// Is (key, nonce, ciphertext, aad) exactly the k-th logged encryption? (branch-free on data)
pub fn log_matches(k: usize, kb: &[u8], nonce: &[u8], ciphertext: &[u8], aad: &[u8]) -> bool {
    unsafe {
        let e = &LOG[k];
        let ct_len = LOG_CT_LEN[k];
        aad.is_empty()
            & (nonce.len() == 16)
            & (kb.len() == 64)
            & (ciphertext.len() == ct_len)
            & eq_prefix(nonce, &e.nonce, 16)
            & eq_prefix(kb, &e.key, 64)
            & eq_prefix(ciphertext, &e.ct, ct_len)
    }
}

/// Plaintext of the k-th logged encryption (= its ciphertext minus the tag).
pub fn log_plaintext(k: usize) -> Vec<u8> {
    unsafe { LOG[k].ct[..LOG_CT_LEN[k] - 16].to_vec() }
}

/// The session keys inside a cookie (`Box<dyn Cipher>`) are only ever asked for their key bytes by
/// the key-set code; their encrypt/decrypt are reachable only through the vtable. Fail loudly if
/// that ever changes.
pub fn siv256_encrypt(
    _this: &AesSivCmac256,
    _buffer: &mut [u8],
    _plaintext_length: usize,
    _associated_data: &[u8],
) -> std::io::Result<EncryptResult> {
    panic!("model: session key (AES-SIV-CMAC-256) encryption is not expected in key-set code");
}

pub fn siv256_decrypt(
    _this: &AesSivCmac256,
    _nonce: &[u8],
    _ciphertext: &[u8],
    _associated_data: &[u8],
) -> Result<Vec<u8>, DecryptError> {
    panic!("model: session key (AES-SIV-CMAC-256) decryption is not expected in key-set code");
}

pub fn siv512_new_random() -> AesSivCmac512 {
    unsafe {
        let k = KEYS[KEY_IDX % KEYS_N];
        KEY_IDX += 1;
        AesSivCmac512::new(k.into())
    }
}

/// Specification of `AesSivCmac256::try_from` / `AesSivCmac512::try_from` (key from bytes: `Ok`
/// with exactly these key bytes iff the length is the key size). The real functions go through
/// generic-array/typenum iterator plumbing and a zeroizing temporary (measured: 106 k symex steps
/// for one 32-byte key); `c26_key_try_from_256/512` prove them equal to this specification for
/// every input length, and the rotation/persistence harnesses (`ks_harness_spec!`) use the
/// specification in their place. The round-trip and tamper harnesses run the real functions.
pub fn siv256_try_from_spec(key_bytes: &[u8]) -> Result<AesSivCmac256, KeyError> {
    if key_bytes.len() != 32 {
        return Err(KeyError);
    }
    let mut a = [0u8; 32];
    a.copy_from_slice(key_bytes);
    Ok(AesSivCmac256::new(a.into()))
}

pub fn siv512_try_from_spec<I>(key_bytes: I) -> Result<AesSivCmac512, KeyError>
where
    I: IntoIterator,
    I::Item: std::borrow::Borrow<u8>,
    I::IntoIter: ExactSizeIterator,
{
    use std::borrow::Borrow;
    let mut it = key_bytes.into_iter();
    if it.len() != 64 {
        return Err(KeyError);
    }
    let mut a = [0u8; 64];
    // written without a loop so that harnesses around `KeySetProvider::load` (whose own loop has a
    // symbolic trip count) can use a small unwinding bound
    macro_rules! take {
        ($($k:expr),*) => { $( match it.next() { Some(b) => a[$k] = *b.borrow(), None => return Err(KeyError) } )* };
    }
    take!(0, 1, 2, 3, 4, 5, 6, 7, 8, 9, 10, 11, 12, 13, 14, 15);
    take!(16, 17, 18, 19, 20, 21, 22, 23, 24, 25, 26, 27, 28, 29, 30, 31);
    take!(32, 33, 34, 35, 36, 37, 38, 39, 40, 41, 42, 43, 44, 45, 46, 47);
    take!(48, 49, 50, 51, 52, 53, 54, 55, 56, 57, 58, 59, 60, 61, 62, 63);
    Ok(AesSivCmac512::new(a.into()))
}

/// `zeroize::volatile_set` (private helper behind every `Zeroize for [u8]`, i.e. behind the `Drop` of
/// the AES-SIV key types): a per-byte volatile-write loop, ~600 symex steps per byte and a 64-trip
/// loop in every key drop. Replaced by the equivalent non-volatile memset (bytes) / plain loop.
pub unsafe fn zeroize_volatile_set_stub<T: Copy + Sized>(dst: *mut T, src: T, count: usize) {
    unsafe {
        if std::mem::size_of::<T>() == 1 {
            let b: u8 = std::mem::transmute_copy(&src);
            std::ptr::write_bytes(dst as *mut u8, b, count);
        } else {
            let mut i = 0;
            while i < count {
                std::ptr::write(dst.add(i), src);
                i += 1;
            }
        }
    }
}

/// zeroize's compiler barrier is inline assembly (no semantic effect; Kani cannot encode it).
pub fn zeroize_barrier_stub<T: ?Sized>(_val: &T) {}

pub fn system_time_now() -> std::time::SystemTime {
    unsafe { std::time::SystemTime::UNIX_EPOCH + std::time::Duration::new(WALL_SECS, WALL_NANOS) }
}

/// `ks_harness! { #[kani::unwind(n)] fn name() { .. } }` = `#[kani::proof]` + the model stubs.
#[macro_export]
macro_rules! ks_harness {
    ( $(#[$m:meta])* fn $name:ident() $body:block ) => {
        #[kani::proof]
        #[kani::stub(<ntp_proto::verif::packet::crypto::AesSivCmac512 as ntp_proto::verif::packet::crypto::Cipher>::encrypt, crate::common::siv512_encrypt)]
        #[kani::stub(<ntp_proto::verif::packet::crypto::AesSivCmac512 as ntp_proto::verif::packet::crypto::Cipher>::decrypt, crate::common::siv512_decrypt)]
        #[kani::stub(<ntp_proto::verif::packet::crypto::AesSivCmac256 as ntp_proto::verif::packet::crypto::Cipher>::encrypt, crate::common::siv256_encrypt)]
        #[kani::stub(<ntp_proto::verif::packet::crypto::AesSivCmac256 as ntp_proto::verif::packet::crypto::Cipher>::decrypt, crate::common::siv256_decrypt)]
        #[kani::stub(ntp_proto::verif::packet::crypto::AesSivCmac512::new_random, crate::common::siv512_new_random)]
        #[kani::stub(zeroize::barrier::optimization_barrier, crate::common::zeroize_barrier_stub)]
        #[kani::stub(zeroize::volatile_set, crate::common::zeroize_volatile_set_stub)]
        #[kani::stub(std::time::SystemTime::now, crate::common::system_time_now)]
        $(#[$m])*
        fn $name() $body
    };
}

/// Same, plus the (separately proven) `try_from` specifications instead of the real functions.
#[macro_export]
macro_rules! ks_harness_spec {
    ( $(#[$m:meta])* fn $name:ident() $body:block ) => {
        $crate::ks_harness! {
            #[kani::stub(ntp_proto::verif::packet::crypto::AesSivCmac256::try_from, crate::common::siv256_try_from_spec)]
            #[kani::stub(ntp_proto::verif::packet::crypto::AesSivCmac512::try_from, crate::common::siv512_try_from_spec)]
            $(#[$m])*
            fn $name() $body
        }
    };
}

// ------------------------------------------------------------------ harness-side helpers
/// Fill nonce/tag ghosts with arbitrary values and reset the log (call up front).
#[cfg(kani)]
pub fn symbolic_aead(mode: u8) {
    unsafe {
        MODE = mode;
        DECRYPT_CALLS = 0;
        let mut k = 0;
        while k < LOG_N {
            NONCE[k] = kani::any();
            TAG[k] = kani::any();
            k += 1;
        }
        LOG_LEN = 0;
    }
}

/// Fill the first `n` ghost keys with arbitrary, pairwise different keys ("fresh random keys
/// never repeat": they differ in their first 8 bytes) and return copies.
#[cfg(kani)]
pub fn symbolic_keys(n: usize) -> [[u8; 64]; KEYS_N] {
    unsafe {
        let mut i = 0;
        while i < n {
            KEYS[i] = kani::any();
            let mut j = 0;
            while j < i {
                kani::assume(tag8(&KEYS[i]) != tag8(&KEYS[j]));
                j += 1;
            }
            i += 1;
        }
        KEY_IDX = 0;
        KEYS
    }
}

/// `a[..n] == b[..n]` compared in 8-byte words (short loops, no early exit).
pub fn eq_prefix(a: &[u8], b: &[u8], n: usize) -> bool {
    if a.len() < n || b.len() < n {
        return false;
    }
    let mut eq = true;
    let mut i = 0;
    while i + 8 <= n {
        let x = u64::from_le_bytes(*<&[u8; 8]>::try_from(&a[i..i + 8]).unwrap());
        let y = u64::from_le_bytes(*<&[u8; 8]>::try_from(&b[i..i + 8]).unwrap());
        eq &= x == y;
        i += 8;
    }
    while i < n {
        eq &= a[i] == b[i];
        i += 1;
    }
    eq
}

/// Like `symbolic_keys`, but only the first 8 bytes of each key are arbitrary (pairwise different);
/// byte `8 + i` of key `i` is 1 and the rest 0. Cheaper; the key-set code never branches on key bytes.
#[cfg(kani)]
pub fn sparse_keys(n: usize) -> [[u8; 64]; KEYS_N] {
    unsafe {
        let mut i = 0;
        while i < n {
            let t: [u8; 8] = kani::any();
            let mut k = [0u8; 64];
            k[..8].copy_from_slice(&t);
            k[8 + i] = 1;
            KEYS[i] = k;
            let mut j = 0;
            while j < i {
                kani::assume(tag8(&KEYS[i]) != tag8(&KEYS[j]));
                j += 1;
            }
            i += 1;
        }
        KEY_IDX = 0;
        KEYS
    }
}

/// `a[..64] == b[..64]`, loop-free (for harnesses that need a small unwinding bound).
pub fn eq64(a: &[u8], b: &[u8]) -> bool {
    if a.len() < 64 || b.len() < 64 {
        return false;
    }
    fn w(s: &[u8], i: usize) -> u64 {
        u64::from_le_bytes(*<&[u8; 8]>::try_from(&s[i..i + 8]).unwrap())
    }
    (w(a, 0) == w(b, 0))
        & (w(a, 8) == w(b, 8))
        & (w(a, 16) == w(b, 16))
        & (w(a, 24) == w(b, 24))
        & (w(a, 32) == w(b, 32))
        & (w(a, 40) == w(b, 40))
        & (w(a, 48) == w(b, 48))
        & (w(a, 56) == w(b, 56))
}

pub fn tag8(k: &[u8; 64]) -> u64 {
    u64::from_le_bytes([k[0], k[1], k[2], k[3], k[4], k[5], k[6], k[7]])
}

#[cfg(kani)]
pub fn symbolic_wall_clock() -> u64 {
    unsafe {
        WALL_SECS = kani::any();
        WALL_NANOS = kani::any();
        kani::assume(WALL_SECS < (1u64 << 62));
        kani::assume(WALL_NANOS < 1_000_000_000);
        WALL_SECS
    }
}

pub fn key512(bytes: [u8; 64]) -> AesSivCmac512 {
    AesSivCmac512::new(bytes.into())
}

pub fn key256(bytes: [u8; 32]) -> AesSivCmac256 {
    AesSivCmac256::new(bytes.into())
}

/// Session cookie contents for AES-SIV-CMAC-256 (IANA AEAD id 15).
pub fn cookie256(s2c: [u8; 32], c2s: [u8; 32]) -> DecodedServerCookie {
    kh::decoded_cookie_from_parts(15, Box::new(key256(s2c)), Box::new(key256(c2s)))
}

/// Session cookie contents for AES-SIV-CMAC-512 (IANA AEAD id 17).
pub fn cookie512(s2c: [u8; 64], c2s: [u8; 64]) -> DecodedServerCookie {
    kh::decoded_cookie_from_parts(17, Box::new(key512(s2c)), Box::new(key512(c2s)))
}

/// Oracle helper: does the decode result carry exactly this algorithm and these session keys?
pub fn same_cookie(d: &DecodedServerCookie, alg: u16, s2c: &[u8], c2s: &[u8]) -> bool {
    let a = d.s2c.key_bytes();
    let b = d.c2s.key_bytes();
    (kh::decoded_cookie_algorithm(d) == alg)
        & (a.len() == s2c.len())
        & (b.len() == c2s.len())
        & eq_prefix(a, s2c, s2c.len())
        & eq_prefix(b, c2s, c2s.len())
}
