NP = "np_srvnts_h"
_shape = ("constant per run: first byte (LI/version/mode), request length, extension-field type/length words, "
          "policy outcome; symbolic: every other request byte, reception time, clock reading, stratum, leap, "
          "reference id, precision, root delay, root dispersion")
PROP = dict(
    functions=[
        "ntp_proto::server::Server<FixedClock>::handle (handle_inner, intended_action)",
        "ntp_proto::packet::NtpPacket::{deserialize, timestamp_response, deny_response, serialize}",
        "ntp_proto::packet::NtpHeaderV3V4::{deserialize, timestamp_response, deny_response, serialize}",
        "ntp_proto::packet::v5::NtpHeaderV5::{deserialize, timestamp_response, deny_response, serialize}",
        "ntp_proto::packet::extension_fields::{ExtensionFieldData::{deserialize, serialize}, ExtensionField::{decode, serialize, encode_*}}",
        "ntp_proto::packet::v5::extension_fields::{ReferenceIdRequest::{decode, to_response}, ReferenceIdResponse::serialize}",
    ],
    bounds=("NTPv3/NTPv4 requests of 48 bytes and 48 + MAC(4, 20, 24) bytes with all 47/51/.. content bytes symbolic; "
            "first bytes: v3/v4 client (LI 0) under 4 policies, plus 15 other first bytes (LI 3, all other v4 modes, versions 0,1,2,6,7, v5 without draft id); "
            "NTPv4 template header|uid(8)|unknown(12)|uid(32); NTPv5 template header|uid(8)|refid-request(8; offsets 8, 504, 510)|unknown(4)|draft-id with a symbolic 512-byte bloom filter; " + _shape),
    outside=("requests longer than the templates, other field orders/counts, symbolic lengths or field types (symbolic execution does not terminate, measured); "
             "RATE answers (Server::handle never sends them: rate-limited clients are ignored); NTS answers are checked by the C19 harnesses (same header oracle, "
             "unique-identifier echo, nothing from the undecryptable part); interleaved mode; the value of the NTPv5 server cookie (random); "
             "root dispersion arithmetic (TimeSnapshot::root_dispersion is replaced by an arbitrary non-negative value, C22/C32 territory)"),
    assumptions=[
        "server state: precision >= 0, 0 <= root delay, root dispersion <= 65535 s (to_bits_short asserts / debug-asserts this; C22)",
        "policy: allow list 128.0.0.0/1 (action deny), empty deny list, client 192.0.2.7 or 10.1.2.3, rate limiting off; address filters supplied ready-made (hook server_from_parts/filter_from_top_nibbles; IpFilter::new is C31)",
        "v5 template: timescale byte and flag bytes of the request are 0 (other values are rejected by the header parser)",
    ],
    stub_notes=[
        "KeySet::decode_cookie -> Err (exact for the key set without keys the plain harnesses use); KeySet::encode_cookie unreachable",
        "TimeSnapshot::root_dispersion -> arbitrary non-negative duration (CBMC's powi is nondeterministic)",
        "core::str::from_utf8 / <[u8]>::is_ascii -> ASCII-only models (exact for the draft-id caller)",
        "cargo-kani flags from harness/np_srvnts_h/Cargo.toml: no-assertion-reach-checks, --max-field-sensitivity-array-size 127",
    ],
    harnesses=[
        H(NP, "c18", "c18_echo_v3", "NTPv3 48/52-byte requests: time/DENY answer header fields per RFC 5905 oracle, ignored when NTS required", timeout=900),
        H(NP, "c18", "c18_echo_v4", "NTPv4 48/52-byte requests: same, plus the v5 upgrade marker", timeout=900),
        H(NP, "c18", "c18_echo_first_byte", "15 other first bytes and MAC sizes 20/24, lengths 47/50: LI ignored, non-client / unknown versions / malformed sizes dropped", tier="thorough", timeout=1800),
        H(NP, "c18", "c18_reflect_v4_time", "NTPv4 time answer echoes exactly the two unique identifiers, zero padded; unknown field and nothing else reflected", tier="thorough", timeout=1800),
        H(NP, "c18", "c18_reflect_v4_deny", "same for the DENY answer", tier="thorough", timeout=1800),
        H(NP, "c18", "c18_reflect_v5", "NTPv5: client cookie echo, uid echo, reference-id response = requested bloom slice iff in range, draft id, zero padding; unknown field not reflected; DENY = poll NEVER", tier="thorough", timeout=1800),
    ],
)
