NP = "np_packet_h"
_CS = [4, 8, 16, 32, 64, 128, 256, 512]
_QUICK = (4, 64, 512)
PROP = dict(
    functions=[
        "ntp_proto::packet::v5::server_reference_id::RemoteBloomFilter::{new,next_request,handle_response,advance_next_to_request,full_filter}",
        "ntp_proto::packet::v5::extension_fields::{ReferenceIdRequest::{new,decode,to_response,offset,payload_len}, ReferenceIdResponse::{decode,bytes}}",
        "ntp_proto::packet::v5::server_reference_id::BloomFilter::{new,add_id,contains_id,as_bytes}",
    ],
    bounds="c34_step_c (registered: c = 64, 512): ONE handle_response from an arbitrary state satisfying the representation invariant (next_to_request = k*c < 512, an outstanding request names next_to_request, any 512 filter bytes, any filled flag) with an arbitrary answer (any cookie, any length 0..=516, any bytes): accepted iff outstanding, same cookie, length == c; stored at the offset; cursor, filled flag, full_filter. c34_inv_64: one full request/answer round through the real next_request / to_response / handle_response from an arbitrary state satisfying the transfer invariant (filter[..next]==server[..next], filled => all equal), arbitrary 512 server bytes. c34_multi_256: the whole transfer from new(256). c34_server: any request decoded from 0..=520 payload bytes or built from any (len,offset) pair, any 512 filter bytes: answer == filter[offset..offset+len] or None. c34_member_add/def: any 512 filter bytes, any ten 12-bit positions. Byte-wise post-conditions are asserted at one arbitrary index (= for all indices).",
    outside="NOT VERIFIED IN TIME (same harness functions instantiated for the other chunk sizes, prepared in c34.rs): c34_step_{4,8,16,32,128,256}, c34_inv_{4..512 except 64}, c34_multi_{128,512}; c34_member_merge/union (add(other), union) did not finish in 400 s. The server's filter changing between chunk requests; false-positive rate; ServerId::new's random generation.",
    assumptions=[
        "representation invariant of RemoteBloomFilter as stated in bounds (established by new(), c34_new, preserved by every step)",
        "server id positions < 4096 (type invariant of U12)",
    ],
    stub_notes=["hooks only build/read RemoteBloomFilter/BloomFilter/ServerId from raw fields (remote_from_raw, remote_raw, bloom_from_bytes, server_id_from_raw, refid_request_from_raw)"],
    harnesses=[
        H(NP, "c34", "c34_new", 'constructor accepts exactly 4,8,...,512; initial state', timeout=900),  # measured 2 s CBMC under load
        H(NP, "c34", "c34_step_64", 'one answer, chunk size 64: accepted iff outstanding, same cookie, length == c; stored at the offset; cursor/filled/full_filter', timeout=900),  # measured 72 s CBMC under load
        H(NP, "c34", "c34_step_512", 'one answer, chunk size 512: accepted iff outstanding, same cookie, length == c; stored at the offset; cursor/filled/full_filter', timeout=900),  # measured 91 s CBMC under load
        H(NP, "c34", "c34_inv_64", "one real request/answer round keeps filter[..next]==server[..next]; filled => equal to the server's 512 bytes (chunk size 64)", tier="thorough", timeout_thorough=3600),  # measured 116 s CBMC under load
        H(NP, "c34", "c34_multi_256", "whole transfer from new(256): complete exactly after 512/c answers and equal to the server's filter", tier="thorough", timeout_thorough=3600),  # measured 141 s CBMC under load
        H(NP, "c34", "c34_server", 'server answer = exactly filter[offset..offset+len] or None', timeout=900),  # measured 49 s CBMC under load
        H(NP, "c34", "c34_req_new", 'ReferenceIdRequest::new validates alignment and range', timeout=900),  # measured 0 s CBMC under load
        H(NP, "c34", "c34_req_new_wide", 'ReferenceIdRequest::new for all u16 len/offset incl. len+offset > 65535 (formerly wrapping, fixed in 68ebe1f): Some iff aligned and in range, no overflow', timeout=900),
        H(NP, "c34", "c34_member_add", 'add_id then contains_id; exactly the ten bits set', tier="thorough", timeout_thorough=3600),  # measured 284 s CBMC under load
        H(NP, "c34", "c34_member_def", 'contains_id == all ten bits set; empty filter has no members', tier="thorough", timeout_thorough=3600),  # measured 112 s CBMC under load
    ],
    # prepared in the harness crate but NOT registered (did not finish / not re-verified in time / expected to fail):
    # c34_step_4, c34_step_8, c34_step_16, c34_step_32, c34_step_128, c34_step_256, c34_inv_4, c34_inv_8, c34_inv_16, c34_inv_32, c34_inv_128, c34_inv_256, c34_inv_512, c34_multi_128, c34_multi_512, c34_member_merge, c34_member_union
)
