//! Cost probes (not registered for any property).
use crate::common::*;
use crate::stubs;
use ntp_proto::*;

#[inline(never)]
fn loop_a(n: u8) -> u8 { let mut i = 0; let mut s = 0u8; while i < 3 { s = s.wrapping_add(n); i += 1; } s }
#[inline(never)]
fn loop_b(n: u8) -> u8 { let mut i = 0; let mut s = 0u8; while i < 3 { s = s.wrapping_add(n); i += 1; } s }
#[inline(never)]
fn loop_c(n: u8) -> u8 { let mut i = 0; let mut s = 0u8; while i < 3 { s = s.wrapping_add(n); i += 1; } s }
#[inline(never)]
fn loop_d(n: u8) -> u8 { let mut i = 0; let mut s = 0u8; while i < 3 { s = s.wrapping_add(n); i += 1; } s }
#[inline(never)]
fn via_slice(d: &[u8]) -> u8 {
    let mut r = 0;
    if (d[0] & 0x38) >> 3 != 5 { r += loop_a(d[1]); }
    if d.len() != 76 { r += loop_b(d[1]); }
    let rest = &d[48..];
    if rest[0] != 0xF5 { r += loop_c(d[1]); }
    if let Some(x) = rest.get(28..) { if x.len() != 0 { r += loop_d(d[1]); } }
    r
}

#[kani::proof]
#[kani::unwind(5)]
fn probe_fold5() {
    let mut p = any_pkt5();
    let sel: u8 = kani::any();
    let mut r = 0u8;
    let mut run = |b0: u8, b12: u8, b14: u8, b15: u8, last: u8| {
        p.set_hdr(b0, b12, b14, b15, last);
        r = via_slice(p.bytes());
    };
    match sel {
        0 => run(0x2C, 0, 0, 1, b'9'),
        1 => run(0x2B, 0, 0, 1, b'9'),
        _ => kani::assume(false),
    }
    assert!(r == 0);
}

sharness! {
    #[kani::unwind(30)]
    fn probe_v5_onearm() {
        stubs::symbolic_clock();
        let (mut src, pre) = any_source(PvClass::Any);
        let mut p = any_pkt5();
        p.set_hdr(0x2C, 0, 0, 1, b'9');
        let acts = collect(src.handle_incoming(p.bytes(), th::ts_from_raw(1), th::ts_from_raw(2)));
        assert!(acts.n == 0);
        kani::cover!(sh::controller(&src).n_meas == 2, "accepted");
    }
}

sharness! {
    #[kani::unwind(30)]
    fn probe_v5_concstate() {
        let mut src = mk_source(ProtocolVersion::V5, th::poll_from_raw(4));
        let base = tokio::time::Instant::now();
        let id: u64 = kani::any();
        sh::set_pending(&mut src, Some((th::ts_from_raw(id), None, base + std::time::Duration::from_secs(5))));
        let mut p = any_pkt5();
        let sel: u8 = kani::any();
        let mut run = |b0: u8, b12: u8, b14: u8, b15: u8, last: u8| {
            p.set_hdr(b0, b12, b14, b15, last);
            let acts = collect(src.handle_incoming(p.bytes(), th::ts_from_raw(1), th::ts_from_raw(2)));
            assert!(acts.n == 0);
        };
        match sel {
            0 => run(0x2C, 0, 0, 1, b'9'),
            1 => run(0x2B, 0, 0, 1, b'9'),
            _ => kani::assume(false),
        }
        kani::cover!(sh::controller(&src).n_meas == 2, "accepted");
    }
}
