//! Safe-Rust verification hooks for this module (accessors/wrappers only; no logic).
#![allow(missing_docs, unused_imports, dead_code)]
use super::*;
pub use super::clock::vh_daemon_clock as clock;
pub use super::config::vh_daemon_config_mod as config;
pub use super::nts_key_provider::vh_daemon_nts_key_provider as nts_key_provider;
pub use super::observer::vh_daemon_observer as observer;
pub use super::server::vh_daemon_server as server;
pub use super::sock_source::vh_daemon_sock_source as sock_source;
pub use super::sockets::vh_daemon_sockets as sockets;
