//! Harnesses for property C01 (see /verif/properties.jsonl).
use crate::stubs;
