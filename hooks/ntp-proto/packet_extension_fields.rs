//! Safe-Rust verification hooks for this module (accessors/wrappers only; no logic).
#![allow(unused_imports, dead_code)]
use super::*;

// ---- C13/C14 (np_nts_h): name the writer trait and the field type from outside, and expose the
// private zero-filling helper (thin wrapper) so that a harness can compare it with its model.
pub use crate::io::NonBlockingWrite;
pub use super::ExtensionField as ExtField;
pub fn write_zeros_hook<W: NonBlockingWrite>(w: W, n: usize) -> std::io::Result<()> {
    ExtensionField::write_zeros(w, n)
}
pub use super::ExtensionHeaderVersion as EhVersion;
pub fn ef_serialize_hook(ef: &ExtensionField<'_>, w: &mut Cursor<&mut [u8]>, minimum_size: u16, version: ExtensionHeaderVersion) -> std::io::Result<()> {
    ef.serialize(w, minimum_size, version)
}

// ---- C25 (np_packet_h): thin wrapper around the private NTS authenticator encoder.
pub fn encode_encrypted_hook(
    w: &mut Cursor<&mut [u8]>,
    fields_to_encrypt: &[ExtensionField<'_>],
    cipher: &dyn Cipher,
    version: ExtensionHeaderVersion,
) -> std::io::Result<()> {
    ExtensionField::encode_encrypted(w, fields_to_encrypt, cipher, version)
}
