//! Safe-Rust verification hooks for this module (accessors/wrappers only; no logic).
#![allow(missing_docs, unused_imports, dead_code)]
use super::*;

// ---- statime_h (C42/C43): identifiers from raw parts (ClockId::new / LinkId::new draw from a global counter)
pub fn clock_id_from_raw(v: usize) -> ClockId {
    ClockId(v)
}
pub fn clock_id_raw(id: ClockId) -> usize {
    id.0
}
pub fn link_id_from_raw(a: ClockId, b: ClockId, n: usize) -> LinkId {
    LinkId(a, b, n)
}
pub fn link_id_serial(id: LinkId) -> usize {
    id.2
}
