//! Verification hooks (guard: cargo feature `pendulum_project_ntpd_rs_verif`). Re-export plumbing only.
#![allow(missing_docs, unused_imports)]
pub use crate::common::vh_common_mod as common;
pub use crate::messages::vh_messages_mod as messages;
