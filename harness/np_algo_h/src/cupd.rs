//! Control logic of `KalmanClockController::update_clock` (shared by C01, C03, C04).
//!
//! `select()` and `combine()` (floating-point selection/averaging, decided on their own in
//! c03_*/c04_vote) are replaced by environment models (`select_model`: empty selection,
//! `combine_model`: an arbitrary ghost-chosen combination or `None`), so that what is decided here
//! is what update_clock *does with* a consensus or the lack of one:
//!  * no consensus  => the clock is not touched at all, startup flag and leap indicator unchanged;
//!  * consensus     => steps obey the thresholds in force (policy checked inside the recording
//!                     clock), the controller leaves startup unconditionally, the leap indicator
//!                     handed to the clock is exactly the vote (and kept when there is no majority),
//!                     and the used sources are exactly the combination's.
use crate::common::*;
use crate::stubs;
use ntp_proto::verif::algorithm::kalman as kh;
use ntp_proto::verif::algorithm::kalman::combiner as ch;
use ntp_proto::verif::time_types as tt;
use ntp_proto::{AlgorithmConfig, NtpLeapIndicator};
use std::sync::atomic::Ordering::Relaxed;

fn set_model(some: bool, offset: f64, freq: f64, leap: u8) {
    ch::MODEL_SOME.store(some, Relaxed);
    ch::MODEL_OFFSET.store(offset.to_bits(), Relaxed);
    ch::MODEL_FREQ.store(freq.to_bits(), Relaxed);
    ch::MODEL_VAR_OFFSET.store(0.0f64.to_bits(), Relaxed);
    ch::MODEL_VAR_FREQ.store(0.0f64.to_bits(), Relaxed);
    ch::MODEL_LEAP.store(leap, Relaxed);
    ch::MODEL_CALLS.store(0, Relaxed);
}

macro_rules! upd_harness {
    ( $(#[$m:meta])* fn $name:ident() $body:block ) => {
        harness! {
            #[kani::stub(ntp_proto::algorithm::kalman::select::select, ntp_proto::verif::algorithm::kalman::select::select_model)]
            #[kani::stub(ntp_proto::algorithm::kalman::combiner::combine, ntp_proto::verif::algorithm::kalman::combiner::combine_model)]
            #[kani::stub(f64::sqrt, crate::common::sqrt_uf)]
            #[kani::stub(ntp_proto::verif::system::root_dispersion_fn, crate::cupd::root_dispersion_stub)]
            $(#[$m])*
            fn $name() $body
        }
    };
}

/// `TimeSnapshot::root_dispersion` uses powi (nondeterministic in CBMC) - what is handed to
/// error_estimate_update is not the subject here.
pub fn root_dispersion_stub(_s: &ntp_proto::TimeSnapshot, _now: ntp_proto::NtpTimestamp) -> ntp_proto::NtpDuration {
    ntp_proto::NtpDuration::ZERO
}

upd_harness! {
    #[kani::stub(std::process::exit, crate::common::exit_unexpected)]
    fn cupd_no_consensus() {
        let sc = any_step_cfg();
        let prev_leap: u8 = kani::any();
        kani::assume(prev_leap <= 3);
        let time: u64 = kani::any();
        set_model(false, 0.0, 0.0, 255);
        let mut c = controller(&sc, AlgorithmConfig::default(), 0.0, 0.0);
        kh::controller_set_leap(&mut c, leap_from_code(prev_leap));
        let upd = kh::update_clock(&mut c, tt::ts_from_raw(time));
        unsafe {
            assert!(ch::MODEL_CALLS.load(Relaxed) == 1, "the combination is attempted once");
            assert!(STEP_N == 0 && FREQ_N == 0, "no consensus: the clock is neither stepped nor steered");
            assert!(STATUS_N == 0 && DISABLE_N == 0 && ERREST_N == 0, "no consensus: nothing at all is handed to the clock");
            assert!(!EXITED, "no consensus never stops the daemon");
        }
        assert!(kh::controller_in_startup(&c) == sc.in_startup, "no consensus: startup state unchanged");
        assert!(leap_code(kh::controller_timedata(&c).leap_indicator) == prev_leap, "no consensus: previous leap indicator kept");
        assert!(upd.used_sources.is_none(), "no consensus: the set of used sources is not replaced");
        assert!(upd.source_message.is_none(), "no consensus: sources are not told about any steering");
    }
}

upd_harness! {
    #[kani::stub(std::process::exit, crate::common::exit_stub)]
    fn cupd_consensus_step() {
        let sc = any_step_cfg();
        let prev_leap: u8 = kani::any();
        kani::assume(prev_leap <= 3);
        let leap: u8 = kani::any();
        kani::assume(leap <= 4); // 4 = no majority
        let s32: i32 = kani::any();
        let time: u64 = kani::any();
        let offset = s32 as f64;
        let d_want: i64 = (s32 as i64) << 32;
        // the step branch: |offset| above the step threshold (default 0.2 s); offset 0 = nothing to do
        set_model(true, offset, 0.0, if leap == 4 { 255 } else { leap });
        let mut c = controller(&sc, AlgorithmConfig::default(), 0.0, 0.0);
        kh::controller_set_leap(&mut c, leap_from_code(prev_leap));
        arm_step_policy(&sc);
        let upd = kh::update_clock(&mut c, tt::ts_from_raw(time));
        // reached only if the daemon did not stop
        unsafe {
            assert!(!EXITED, "no exit on a returning path");
            if s32 == 0 {
                assert!(STEP_N == 0, "zero offset: no step");
            } else {
                assert!(STEP_N == 1 && STEP_D[0] == d_want, "the consensus offset is stepped once, as estimated");
                assert!(step_allowed(STEP_D[0]), "the step respects the thresholds in force");
            }
            assert!(DISABLE_N == if sc.in_startup { 1 } else { 0 }, "kernel discipline disabled exactly when leaving startup");
            // leap indicator: exactly the vote, or the previous one kept
            if leap == 4 {
                assert!(STATUS_N == 0, "no leap majority: nothing handed to the kernel");
                assert!(leap_code(kh::controller_timedata(&c).leap_indicator) == prev_leap, "no leap majority: previous indicator kept");
            } else {
                assert!(STATUS_N == 1 && STATUS_L[0] == leap, "the voted leap indicator is handed to the kernel");
                assert!(leap_code(kh::controller_timedata(&c).leap_indicator) == leap, "and advertised");
            }
        }
        assert!(!kh::controller_in_startup(&c), "after a successful consensus the controller has left startup");
        match &upd.used_sources {
            Some(v) => assert!(v.len() == 1 && v[0] == ntp_proto::verif::source::clock_id(77), "used sources are exactly the combination's"),
            None => assert!(false, "used sources must be reported after a consensus"),
        }
        kani::cover!(sc.in_startup && s32 > 1000 && leap == 4, "large startup step without leap majority");
        kani::cover!(!sc.in_startup && s32 < 0 && leap == 1, "backward step after startup with leap 61");
        kani::cover!(s32 == 0 && sc.in_startup, "consensus with nothing to correct still ends startup");
    }
}

// ---------------------------------------------------------------- native scenario tests
// The harnesses above decide the control logic under environment models of select()/combine();
// a counterexample of theirs cannot be replayed natively through Kani's playback (stubs are inert
// in a native build). These ordinary tests drive the REAL select/combine/update_clock through
// the public controller API with one concrete scenario per claim; the driver runs them natively
// (release and dev) when the corresponding harness fails, and reports a violation only if the
// scenario reproduces it on the real code.
#[cfg(test)]
mod native {
    use super::*;
    use ntp_proto::verif::algorithm::InternalTimeSyncController;
    use ntp_proto::{KalmanClockController, NtpDuration, SourceConfig, SynchronizationConfig};

    fn controller_one_source(in_startup: bool, offset: f64, leap: NtpLeapIndicator) -> (ntp_proto::KalmanClockController<RecClock>, bool) {
        let sc = SynchronizationConfig { minimum_agreeing_sources: 1, ..SynchronizationConfig::default() };
        let mut c = kh::controller_from_raw(RecClock, sc, AlgorithmConfig::default(), 0.0, ntp_proto::TimeSnapshot::default(), 0.0, in_startup);
        let id = ntp_proto::verif::source::clock_id(5);
        let _ctl = c.add_source(id, SourceConfig::default());
        c.source_update(id, true);
        let snap = kh::snapshot_from_raw(
            5,
            [offset, 0.0],
            [[1e-8, 0.0], [0.0, 1e-12]],
            tt::ts_from_raw(1 << 40),
            1e-8,
            0.001,
            None,
            NtpDuration::ZERO,
            NtpDuration::ZERO,
            leap,
            tt::ts_from_raw(1 << 40),
        );
        let upd = c.source_message(id, kh::source_message_from_snapshot(snap));
        let consensus = upd.used_sources.is_some();
        (c, consensus)
    }

    #[test]
    fn native_consensus_leaves_startup() {
        // one usable source, leap status unknown (no leap majority), small offset
        let (c, consensus) = controller_one_source(true, 0.0, NtpLeapIndicator::Unknown);
        assert!(consensus, "scenario reaches a consensus");
        assert!(!kh::controller_in_startup(&c), "after a successful consensus the controller has left startup");
        // with a leap majority as well
        let (c, consensus) = controller_one_source(true, 0.0, NtpLeapIndicator::NoWarning);
        assert!(consensus, "scenario reaches a consensus");
        assert!(!kh::controller_in_startup(&c), "after a successful consensus the controller has left startup");
    }

    #[test]
    fn native_leap_applied_exactly() {
        unsafe {
            STATUS_N = 0;
        }
        let (c, consensus) = controller_one_source(false, 0.0, NtpLeapIndicator::Leap61);
        assert!(consensus);
        unsafe {
            assert!(STATUS_N == 1 && STATUS_L[0] == leap_code(NtpLeapIndicator::Leap61), "voted leap indicator handed to the kernel");
        }
        assert!(leap_code(kh::controller_timedata(&c).leap_indicator) == leap_code(NtpLeapIndicator::Leap61));
    }
}
