//! Harnesses for property C18 (see /verif/properties.jsonl): server answers echo the request
//! correctly and reflect nothing else.
use crate::common::*;
use crate::stubs;
use ntp_proto::verif::packet::v5::server_reference_id as bh;
use ntp_proto::*;

/// Plain (non-NTS) request without extension fields: run once and check the answer.
/// `b0_concrete`: the first byte (LI/version/mode) is a constant, which keeps the version
/// dispatch out of the symbolic state (symbolic version bits make symex walk the NTPv5 decoder,
/// incl. UTF-8 validation, on every path).
fn echo_plain(msg: &[u8], env: &Env) {
    let mut server = env.server(v5::BloomFilter::new(), empty_keyset());
    let mut stats = RecStats::default();
    let mut backing = [0u8; BUF + SLACK];
    let buf = &mut backing[..BUF];
    let out = handle_once(&mut server, env, msg, buf, &mut stats);
    std::mem::forget(server);

    let len = msg.len();
    let ver = (msg[0] >> 3) & 7;
    // v3: 48 + optional MAC of 4..=24 bytes; v4: the same (<= 24 trailing bytes are a MAC)
    let well_formed = (len == 48 || (len >= 52 && len <= 72)) && (ver == 3 || ver == 4) && msg[0] & 7 == 3;
    match out {
        None => {
            assert!(!(well_formed && env.require_nts != 2), "well-formed client request is answered");
        }
        Some(n) => {
            assert!(ver == 3 || ver == 4, "only v3/v4 requests can be answered without extension fields");
            assert!(msg[0] & 7 == 3, "only client-mode requests are answered");
            assert!(n == 48, "no extension fields, no MAC in the answer");
            let expect = if env.deny_client || env.require_nts == 1 { Kind::Deny } else { Kind::Time };
            assert!(env.require_nts != 2, "non-NTS request ignored when NTS is required (ignore)");
            check_header_v34(&buf[..n], msg, expect, env);
            kani::cover!(expect == Kind::Time && ver == 3, "v3 time answer");
            kani::cover!(expect == Kind::Time && ver == 4, "v4 time answer");
            kani::cover!(expect == Kind::Time && len == 52, "time answer to a request with a 4-byte MAC");
            kani::cover!(expect == Kind::Time && len == 72, "time answer to a request with a 24-byte MAC");
            kani::cover!(expect == Kind::Deny && env.deny_client, "DENY by address policy");
            kani::cover!(expect == Kind::Deny && !env.deny_client, "DENY because NTS is required");
            kani::cover!(expect == Kind::Time && rd64(buf, 16) == UPGRADE_MAGIC, "upgrade marker answered");
            kani::cover!(expect == Kind::Time && env.stratum == 0, "time answer with stratum 0 still carries timestamps");
        }
    }
    assert!(stats.calls == 1, "statistics registered exactly once");
}

srv_harness! {
    #[kani::unwind(4)]
    fn c18_echo_b0() {
        // 48 bytes, all symbolic including LI/version/mode (every version, every mode).
        let msg: [u8; 48 + SLACK] = kani::any();
        let env = Env::any();
        echo_plain(&msg[..48], &env);
    }
}

srv_harness! {
    #[kani::unwind(4)]
    fn c18_echo_v3() {
        // header + MAC of every accepted size behind a constant first byte (LI 0, version 3, client mode)
        let mut msg: [u8; 72 + SLACK] = kani::any();
        msg[0] = 0x1B;
        let env = Env::any();
        // concrete lengths (a symbolic length makes every length test in the parser symbolic):
        // bare header, 4-byte MAC (crypto-NAK size), 20-byte MAC, 24-byte MAC, and two malformed sizes
        echo_plain(&msg[..48], &env);
        echo_plain(&msg[..52], &env);
    }
}

srv_harness! {
    #[kani::unwind(4)]
    fn c18_echo_v4() {
        // header + MAC of every accepted size behind a constant first byte (LI 0, version 4, client mode)
        let mut msg: [u8; 72 + SLACK] = kani::any();
        msg[0] = 0x23;
        let env = Env::any();
        // concrete lengths (a symbolic length makes every length test in the parser symbolic):
        // bare header, 4-byte MAC (crypto-NAK size), 20-byte MAC, 24-byte MAC, and two malformed sizes
        echo_plain(&msg[..48], &env);
        echo_plain(&msg[..52], &env);
    }
}

/// type of the "other" (not to be reflected) extension field in the templates
pub const OTHER_TYPE: u16 = 0x0ABC;

/// Walk the extension fields of an NTPv4 answer with an independent reader and require that
/// they are exactly the echoes of the request's unique-identifier fields `uids` = (offset of the
/// payload in the request, payload length), in order, zero padded, and nothing else.
pub fn check_v4_fields_are_uid_echoes(resp: &[u8], n: usize, req: &[u8], uids: &[(usize, usize)]) {
    let mut pos = 48;
    let mut k = 0;
    while k < uids.len() {
        let (off, plen) = uids[k];
        assert!(pos + 4 <= n, "answer holds an echo for every unique identifier of the request");
        assert!(rd16(resp, pos) == EF_UID, "answer field is a unique identifier");
        let l = rd16(resp, pos + 2) as usize;
        assert!(l >= 4 + plen && l % 4 == 0 && pos + l <= n, "echoed field is well-formed");
        assert!(same(resp, pos + 4, req, off, plen), "unique identifier echoed unchanged");
        assert!(all_zero(resp, pos + 4 + plen, l - 4 - plen), "padding of the echoed field is zero (nothing else reflected)");
        pos += l;
        k += 1;
    }
    assert!(pos == n, "nothing follows the echoed unique identifiers");
}

srv_harness! {
    #[kani::unwind(5)]
    fn c18_reflect_v4() {
        // T{ header48 | uid(8) | other(unknown type, 12 bytes) | uid(32) }: contents symbolic, type and
        // length fields constant (symbolic types make symex walk every field decoder, incl. NTS).
        const LEN: usize = 48 + 12 + 16 + 36;
        // every byte symbolic, then the constant fields written element-wise (no memcpy: CBMC
        // keeps per-element constants only for element-wise stores)
        let mut backing: [u8; LEN + SLACK] = kani::any();
        let msg = &mut backing[..LEN];
        let env = Env::any();
        msg[0] = 0x23; // LI 0, version 4, client mode (constant: see echo_plain)
        put_ef(msg, 48, EF_UID, 12);
        put_ef(msg, 60, OTHER_TYPE, 16);
        put_ef(msg, 76, EF_UID, 36);

        let mut server = env.server(v5::BloomFilter::new(), empty_keyset());
        let mut stats = RecStats::default();
        let mut buf_backing = [0u8; BUF + SLACK];
        let buf = &mut buf_backing[..BUF];
        let out = handle_once(&mut server, &env, msg, buf, &mut stats);
        std::mem::forget(server);

        match out {
            None => {
                assert!(env.require_nts == 2, "well-formed client request is answered");
            }
            Some(n) => {
                let expect = if env.deny_client || env.require_nts == 1 { Kind::Deny } else { Kind::Time };
                check_header_v34(&buf[..n], msg, expect, &env);
                check_v4_fields_are_uid_echoes(buf, n, msg, &[(52, 8), (80, 32)]);
                kani::cover!(expect == Kind::Time, "time answer with echoed identifiers");
                kani::cover!(expect == Kind::Deny, "DENY answer with echoed identifiers");
            }
        }
    }
}

srv_harness! {
    #[kani::unwind(7)]
    fn c18_reflect_v5() {
        // T{ header48 | uid(8) | refid-request(offset, 8 bytes) | other(type T, 4 bytes) | draft-id }
        const LEN: usize = 48 + 12 + 12 + 8 + 28;
        let mut backing: [u8; LEN + SLACK] = kani::any();
        let msg = &mut backing[..LEN];
        let bloom: [u8; 512] = kani::any();
        let env = Env::any();
        msg[0] = 0x2B; // LI 0, version 5, request mode (constant: see echo_plain)
        put_ef(msg, 48, EF_UID, 12);
        put_ef(msg, 60, EF_V5_REFID_REQ, 12);
        put_ef(msg, 72, OTHER_TYPE, 8);
        put_ef(msg, 80, EF_V5_DRAFT, 27);
        let mut i = 0;
        while i < 23 {
            msg[84 + i] = DRAFT[i];
            i += 1;
        }
        msg[107] = 0;

        let mut server = env.server(bh::bloom_from_bytes(bloom), empty_keyset());
        let mut stats = RecStats::default();
        let mut buf_backing = [0u8; BUF + SLACK];
        let buf = &mut buf_backing[..BUF];
        let out = handle_once(&mut server, &env, msg, buf, &mut stats);
        std::mem::forget(server);

        let header_ok = msg[12] <= 3 && msg[14] == 0 && msg[15] & 0xF8 == 0;
        let bloom_off = rd16(msg, 64) as usize;
        match out {
            None => {
                assert!(!header_ok || env.require_nts == 2, "well-formed client request is answered");
            }
            Some(n) => {
                let resp = &buf[..n];
                let expect = if env.deny_client || env.require_nts == 1 { Kind::Deny } else { Kind::Time };
                check_header_v5(resp, msg, expect, &env);
                // independent field walk
                let mut pos = 48;
                let mut uid_seen = 0;
                let mut ref_seen = 0;
                let mut draft_seen = 0;
                let mut fields = 0;
                while pos < n && fields < 6 {
                    assert!(pos + 4 <= n, "field header inside the answer");
                    let ty = rd16(resp, pos);
                    let l = rd16(resp, pos + 2) as usize;
                    let padded = (l + 3) & !3;
                    assert!(l >= 4 && pos + padded <= n, "answer field is well-formed");
                    if ty == EF_UID {
                        assert!(uid_seen == 0 && ref_seen == 0 && draft_seen == 0, "identifier echo comes first, once");
                        assert!(l == 12 && same(resp, pos + 4, msg, 52, 8), "unique identifier echoed unchanged");
                        uid_seen += 1;
                    } else if ty == EF_V5_REFID_RESP {
                        assert!(expect == Kind::Time && ref_seen == 0, "one reference-id response, in time answers only");
                        assert!(l == 12 && bloom_off + 8 <= 512, "response covers the requested slice");
                        let mut i = 0;
                        while i < 8 {
                            assert!(resp[pos + 4 + i] == bloom[bloom_off + i], "response carries the requested bloom filter bytes");
                            i += 1;
                        }
                        ref_seen += 1;
                    } else if ty == EF_V5_DRAFT {
                        assert!(l == 27 && same(resp, pos + 4, DRAFT, 0, 23) && resp[pos + 27] == 0, "draft identification is the constant");
                        draft_seen += 1;
                    } else if ty == EF_V5_PADDING {
                        assert!(expect == Kind::Time && all_zero(resp, pos + 4, padded - 4), "padding is zero");
                    } else {
                        assert!(false, "answer contains a field that is not an echo, a reference-id response, the draft id or padding");
                    }
                    pos += padded;
                    fields += 1;
                }
                assert!(pos == n, "fields cover the answer exactly");
                assert!(uid_seen == 1 && draft_seen == 1, "identifier echoed, draft id present");
                if expect == Kind::Time {
                    assert!((ref_seen == 1) == (bloom_off + 8 <= 512), "reference-id response iff the requested slice exists");
                }
                kani::cover!(expect == Kind::Time && ref_seen == 1 && bloom_off > 0, "time answer with bloom filter slice");
                kani::cover!(expect == Kind::Time && ref_seen == 0, "time answer, slice out of range");
                kani::cover!(expect == Kind::Deny, "v5 DENY");
            }
        }
    }
}
